package main

import (
	"bufio"
	"encoding/json"
	"flag"
	"fmt"
	"math/rand/v2"
	"os"
	"strings"
)

// Go-side randomized input drivers.  They choose INPUTS only (tables, call
// sequences, request bytes); every expectation lives in the TLA+ specification.

type gpat struct {
	P   string
	Wps []map[string]string // simple witness values (bytes disjoint from all literal text of the pool)
	Fam int                 // sub-pool (patterns of one family share prefixes)
}

func w(kv ...string) map[string]string {
	m := map[string]string{}
	for i := 0; i+1 < len(kv); i += 2 {
		m[kv[i]] = kv[i+1]
	}
	return m
}

// literal bytes used by the pool: / u x 5 l o g z y p . h - s a b c d e f t r w v k m i n j  (values use 7 8 9 q Q 0)
var gpool = []gpat{
	{"/u/{id}", []map[string]string{w("id", "7q"), w("id", "Q9")}, 0},
	{"/u/{id:\\d+}", []map[string]string{w("id", "77"), w("id", "908")}, 0},
	{"/u/{id:digit}", []map[string]string{w("id", "78"), w("id", "99999999999999999999"), w("id", "000000000000000000000078")}, 0},
	{"/u/{id:word}", []map[string]string{w("id", "7q8")}, 0},
	{"/u/5", []map[string]string{w()}, 0},
	{"/u/{id}/x", []map[string]string{w("id", "7q")}, 0},
	{"/u/{id}/{p:\\d+}", []map[string]string{w("id", "7q", "p", "88")}, 0},
	{"/u/{id}/{act}/log", []map[string]string{w("id", "7q", "act", "8Q")}, 0},
	{"/u/{-id}/z", []map[string]string{w("id", "7q")}, 0},
	{"/u/{uid}/x", []map[string]string{w("uid", "7q")}, 0},
	{"/u/{u}/y", []map[string]string{w("u", "7q")}, 0},
	{"/u/{id}/x/{rest}", []map[string]string{w("id", "7q", "rest", "9Q")}, 0},
	{"/u/{id:[^/]+}/k", []map[string]string{w("id", "7q")}, 0},
	{"/u/{id:.+}/m", []map[string]string{w("id", "7q")}, 0},
	{"/p/{id:\\d+}.h", []map[string]string{w("id", "77")}, 1},
	{"/p/{id:\\d+}.x", []map[string]string{w("id", "77")}, 1},
	{"/p/{path}.h", []map[string]string{w("path", "7q")}, 1},
	{"/p-{a}-{b:any}.h", []map[string]string{w("a", "7q", "b", "8Q")}, 1},
	{"/p/{id:any}aa", []map[string]string{w("id", "7q")}, 1},
	{"/p/{-id:\\d+}.z", []map[string]string{w("id", "77")}, 1},
	{"/p/{id:\\d+}.z", []map[string]string{w("id", "77")}, 1},
	{"/p/{id:\\d+|new}/k", []map[string]string{w("id", "77")}, 1},
	{"/p/{v:even}aa", []map[string]string{w("v", "7q")}, 1},
	{"/p/{n:\\d*}", []map[string]string{w("n", "77")}, 1},
	{"/posts/author", []map[string]string{w()}, 2},
	{"/posts/abc", []map[string]string{w()}, 2},
	{"/posts/", []map[string]string{w()}, 2},
	{"/posts", []map[string]string{w()}, 2},
	{"/posts/{id}/author", []map[string]string{w("id", "7q")}, 2},
	{"/posts/{id}/author/email", []map[string]string{w("id", "7q")}, 2},
	{"/posts/{id}", []map[string]string{w("id", "7q")}, 2},
	{"/posts/{id:digit}/author", []map[string]string{w("id", "78"), w("id", "18446744073709551616")}, 2},
	{"/", []map[string]string{w()}, 2},
	{"/s/a", []map[string]string{w()}, 3}, {"/s/b", []map[string]string{w()}, 3}, {"/s/c", []map[string]string{w()}, 3},
	{"/s/d", []map[string]string{w()}, 3}, {"/s/e", []map[string]string{w()}, 3}, {"/s/f", []map[string]string{w()}, 3},
	{"/s/g", []map[string]string{w()}, 3}, {"/s/ab", []map[string]string{w()}, 3},
	{"/s/{id}", []map[string]string{w("id", "7q")}, 3},
	{"/s/{n:\\d+}", []map[string]string{w("n", "77")}, 3},
	{"/s/{id}/t", []map[string]string{w("id", "7q")}, 3},
	{"a", []map[string]string{w()}, 4}, {"b", []map[string]string{w()}, 4}, {"c", []map[string]string{w()}, 4},
	{"d", []map[string]string{w()}, 4}, {"e", []map[string]string{w()}, 4}, {"f", []map[string]string{w()}, 4},
	{"{top}", []map[string]string{w("top", "7q")}, 4},
	{"{top}/r", []map[string]string{w("top", "7q")}, 4},
}

var gIcpt = map[string]string{"digit": "digit", "word": "word", "any": "any", "even": "even"}

func substPat(p string, ps map[string]string) string {
	var b strings.Builder
	for i := 0; i < len(p); {
		if p[i] == '{' {
			j := strings.IndexByte(p[i:], '}') + i
			name := p[i+1 : j]
			if k := strings.IndexByte(name, ':'); k >= 0 {
				name = name[:k]
			}
			name = strings.TrimPrefix(name, "-")
			b.WriteString(ps[name])
			i = j + 1
			continue
		}
		b.WriteByte(p[i])
		i++
	}
	return b.String()
}

type gcase struct {
	Fam     string           `json:"fam"`
	ID      string           `json:"id"`
	Cfg     map[string]any   `json:"cfg"`
	Ops     []map[string]any `json:"ops"`
	Battery string           `json:"battery"`
	Base    bool             `json:"base,omitempty"`
	Mirror  bool             `json:"mirror,omitempty"`
	Pool    map[string]any   `json:"pool,omitempty"`
}

func mutatePath(r *rand.Rand, p string, anyByte bool) string {
	b := []byte(p)
	rb := func() byte {
		if anyByte {
			return byte(r.IntN(256))
		}
		const al = "/ux57.-azq{}:%"
		return al[r.IntN(len(al))]
	}
	switch r.IntN(7) {
	case 0:
		if len(b) > 0 {
			i := r.IntN(len(b))
			b = append(b[:i], b[i+1:]...)
		}
	case 1:
		i := r.IntN(len(b) + 1)
		b = append(b[:i], append([]byte{rb()}, b[i:]...)...)
	case 2:
		if len(b) > 0 {
			b[r.IntN(len(b))] = rb()
		}
	case 3: // duplicate the tail
		if len(b) > 1 {
			i := r.IntN(len(b))
			b = append(b, b[i:]...)
		}
	case 4:
		b = append(b, '/')
	case 5: // splice two halves around a slash
		if i := strings.LastIndexByte(p, '/'); i > 0 {
			b = []byte(p[:i] + p[i:] + p[i:])
		}
	case 6:
		b = append(b, rb(), rb())
	}
	return string(b)
}

var regM = []string{"GET", "POST", "DELETE", "PUT"}
var oddM = []string{"GET", "POST", "HEAD", "OPTIONS", "TRACE", "BOGUS", "", "get", "PATCH", "CONNECT"}

func genRouter(r *rand.Rand, n int, mode string, out *bufio.Writer) {
	for ci := 0; ci < n; ci++ {
		// sub-pool: one or two families plus a few strays
		f1, f2 := r.IntN(5), r.IntN(5)
		sub := []gpat{}
		for _, p := range gpool {
			if p.Fam == f1 || (r.IntN(3) == 0 && p.Fam == f2) || r.IntN(12) == 0 {
				if r.IntN(4) > 0 {
					sub = append(sub, p)
				}
			}
		}
		if len(sub) < 3 {
			sub = append(sub, gpool[:4]...)
		}
		if len(sub) > 12 {
			r.Shuffle(len(sub), func(i, j int) { sub[i], sub[j] = sub[j], sub[i] })
			sub = sub[:12]
		}
		trace := r.IntN(4) == 0
		cfg := map[string]any{"name": "r", "trace": trace, "icpt": gIcpt, "domain": ""}
		probes := []map[string]any{}
		addProbe := func(path, wit string, wps map[string]string) {
			if wps == nil {
				wps = map[string]string{}
			}
			probes = append(probes, map[string]any{"path": l1enc(path), "wit": wit, "wps": wps})
		}
		for _, p := range sub {
			for _, ps := range p.Wps {
				path := substPat(p.P, ps)
				addProbe(path, p.P, ps)
				for k := 0; k < 2; k++ {
					addProbe(mutatePath(r, path, mode == "bytes"), "", nil)
				}
			}
		}
		addProbe("", "", nil)
		addProbe("*", "", nil)
		methods := []string{"GET", "POST", "OPTIONS", "HEAD"}
		methods = append(methods, oddM[r.IntN(len(oddM))])
		depth := 4 + r.IntN(8)
		ops := []map[string]any{}
		for s := 0; s < depth; s++ {
			p := sub[r.IntN(len(sub))]
			k := r.IntN(20)
			if mode == "addonly" || s < 3 {
				k = 0
			}
			switch {
			case k < 12:
				ms := []string{regM[r.IntN(len(regM))]}
				if mode != "addonly" && r.IntN(6) == 0 {
					ms = append(ms, oddM[r.IntN(len(oddM))])
					if r.IntN(2) == 0 {
						ms[0], ms[1] = ms[1], ms[0]
					}
				}
				if r.IntN(10) == 0 {
					ms = []string{}
				}
				ops = append(ops, map[string]any{"op": "handle", "pat": p.P, "methods": ms, "mws": []string{}, "chain": []any{}, "res": false})
			case k < 16:
				ms := []string{oddM[r.IntN(len(oddM))]}
				if r.IntN(3) == 0 {
					ms = append(ms, regM[r.IntN(len(regM))])
				}
				if r.IntN(3) == 0 {
					ms = []string{}
				}
				ops = append(ops, map[string]any{"op": "remove", "pat": p.P, "methods": ms, "mws": []string{}, "chain": []any{}, "res": false})
			default:
				chain := []any{}
				if r.IntN(4) > 0 {
					pre := p.P[:1+r.IntN(len(p.P))]
					if strings.Count(pre, "{") == strings.Count(pre, "}") { // a prefix never ends inside a token
						chain = append(chain, map[string]any{"p": pre, "mws": []string{}})
					}
				}
				ops = append(ops, map[string]any{"op": "clean", "pat": "", "methods": []string{}, "mws": []string{}, "chain": chain, "res": false})
			}
		}
		th := []map[string]any{}
		for k := 0; k < 3; k++ {
			body := []string{"", "<a href='x'>&\"</a>", l1enc(randBytes(r, 12)), l1enc("a\x00b<\xff>"), "it's \"q\""}[r.IntN(5)]
			n := 0
			if body != "" && r.IntN(3) == 0 {
				n = -1
			}
			th = append(th, map[string]any{"op": "tracehelper", "method": "TRACE", "path": l1enc(mutatePath(r, []string{"/p<q>", "/p'q\"r"}[r.IntN(2)], true)),
				"hdr": map[string]string{"X-T": l1enc([]string{"v&'", "v'\""}[r.IntN(2)] + randBytes(r, 3))}, "body": body, "flag": r.IntN(2) == 0, "n": n})
		}
		c := gcase{Fam: "router", ID: fmt.Sprintf("g%s:%d", mode, ci), Cfg: cfg, Ops: ops, Battery: "every", Base: true,
			Pool: map[string]any{"probes": probes, "methods": methods, "th": th}}
		b, _ := json.Marshal(c)
		out.Write(b)
		out.WriteByte('\n')
	}
}

// ---- C05: arbitrary and grammar-mutated PATTERN strings through CheckSyntax, URL, Handle (+ a few requests)
var patAtoms = []string{"/", "/u", "/p-", "{", "}", ":", "-", "{id}", "{id:\\d+}", "{-id}", "{id:digit}", "{:x}", "{}", "{a}{b}", "{id:[}", "{id:(}", "{id:\\}",
	"{\u540d}", "{id:.+}", "x", ".", "*", "", "{id", "id}", "}{", "{{", "}}", "{a:b:c}", "{a-b}", "{1x:\\d}", "\\", "%", " ", "{id:\\d{2}}", "{id:a|b}", "{id:a)|(b}", "{id:a)(b}", "{id:x)|(}", "{id:(?i)b}", "{:}", "{-}", "{-:}", "{-:x}", "{:}x", "{a:}", "{a}:", "{a}:{b}", ":{a}", "{a:b}:", "{a}/{-a}", "{-a}/{a}", "{-a}x{a:\\d+}", "{-a}/{-a}"}

func randPattern(r *rand.Rand) string {
	switch r.IntN(10) {
	case 0: // arbitrary bytes
		n := r.IntN(12)
		b := make([]byte, n)
		for i := range b {
			b[i] = byte(r.IntN(256))
		}
		return string(b)
	case 1: // very long literal / very long name
		n := 32000 + r.IntN(1600)
		if r.IntN(2) == 0 {
			return "/" + strings.Repeat("a", n)
		}
		return "/{" + strings.Repeat("n", n) + "}"
	case 2: // a pool pattern with one byte changed
		p := []byte(gpool[r.IntN(len(gpool))].P)
		if len(p) > 0 {
			cs := "{}:-/x\\["
			p[r.IntN(len(p))] = cs[r.IntN(len(cs))]
		}
		return string(p)
	}
	n := 1 + r.IntN(5)
	var b strings.Builder
	for i := 0; i < n; i++ {
		b.WriteString(patAtoms[r.IntN(len(patAtoms))])
	}
	return b.String()
}

// every string up to length L over the bytes that matter to the pattern scanner (exhaustive small scope)
func enumPatterns(L int) []string {
	alpha := []string{"{", "}", ":", "-", "a", "/"}
	out := []string{""}
	level := []string{""}
	for l := 0; l < L; l++ {
		next := make([]string, 0, len(level)*len(alpha))
		for _, s := range level {
			for _, c := range alpha {
				next = append(next, s+c)
			}
		}
		out = append(out, next...)
		level = next
	}
	return out
}

func genPatterns(r *rand.Rand, n int, enum int, out *bufio.Writer) {
	var all []string
	if enum > 0 {
		all = enumPatterns(enum)
		n = len(all)
	}
	for ci := 0; ci < n; ci++ {
		pat := ""
		if enum > 0 {
			pat = all[ci]
		} else {
			pat = randPattern(r)
		}
		icpt := map[string]string{}
		if r.IntN(2) == 0 {
			icpt = gIcpt
		}
		cfg := map[string]any{"name": "r", "trace": r.IntN(5) == 0, "icpt": icpt, "domain": ""}
		params := map[string]string{"id": "5", "a": "x", "b": ""}
		if r.IntN(3) == 0 {
			params = map[string]string{}
		}
		ops := []map[string]any{
			{"op": "syntax", "pat": l1enc(pat)},
			{"op": "url", "key": "mux", "strict": false, "pat": l1enc(pat), "params": params, "chain": []any{}, "res": false},
			{"op": "url", "key": "", "strict": false, "pat": l1enc(pat), "params": params, "chain": []any{}, "res": false},
			{"op": "url", "key": "", "strict": true, "pat": l1enc(pat), "params": params, "chain": []any{}, "res": false},
			{"op": "handle", "pat": l1enc(pat), "methods": []string{"GET"}, "mws": []string{}, "chain": []any{}, "res": false},
			{"op": "url", "key": "", "strict": true, "pat": l1enc(pat), "params": params, "chain": []any{}, "res": false},
			{"op": "remove", "pat": l1enc(pat), "methods": []string{}, "mws": []string{}, "chain": []any{}, "res": false},
		}
		probes := []map[string]any{}
		for _, p := range []string{pat, mutatePath(r, pat, true), "/u/5", "", "*", mutatePath(r, "/u/5/x", true), "/b", "b", "/ub", "/u/b", "/p-b", "/uab"} {
			if len(p) > 200 {
				p = p[:200]
			}
			probes = append(probes, map[string]any{"path": l1enc(p), "wit": "", "wps": map[string]string{}})
		}
		c := gcase{Fam: "router", ID: fmt.Sprintf("gpat:%d", ci), Cfg: cfg, Ops: ops, Battery: "every",
			Pool: map[string]any{"probes": probes, "methods": []string{"GET", "OPTIONS", oddM[r.IntN(len(oddM))]}}}
		b, _ := json.Marshal(c)
		out.Write(b)
		out.WriteByte('\n')
	}
}

// ---- C05: arbitrary Host / Accept / path bytes through Hosts.Match, the version matchers and Group.ServeHTTP
func randBytes(r *rand.Rand, max int) string {
	n := r.IntN(max + 1)
	b := make([]byte, n)
	for i := range b {
		b[i] = byte(r.IntN(256))
	}
	return string(b)
}

func genMatchBytes(r *rand.Rand, n int, out *bufio.Writer) {
	hostSeeds := []string{"a.example.com", "A.Example.COM:80", "[::1]:80", "7q.example.com", ":", "[", "]", "a.example.com:", "a.example.com:8x", "*", ""}
	accSeeds := []string{"application/json; version=v1", "text/html;version=\"v2\"", ";", "a/b;;", "a/b; version", "a/b; version=", "*/*; q=0.8; version=v1"}
	for ci := 0; ci < n; ci++ {
		ops := []map[string]any{
			{"op": "hnew", "domains": []string{"a.example.com", "b.example.com", "c.example.com", "d.example.com", "e.example.com", "{sub}.example.com", "{sub:\\w+}.b.com", "::1"}, "flag": r.IntN(2) == 0},
			{"op": "pathver", "key": "ver", "versions": []string{"v1", "/v11/"}},
			{"op": "headerver", "key": "hv", "val": "version", "versions": []string{"v1", "v2"}},
		}
		reqs := []map[string]any{}
		for k := 0; k < 30; k++ {
			h := hostSeeds[r.IntN(len(hostSeeds))]
			switch r.IntN(3) {
			case 0:
				h = mutatePath(r, h, true)
			case 1:
				h = randBytes(r, 10)
			}
			reqs = append(reqs, map[string]any{"op": "hmatch", "host": l1enc(h), "pat": "", "params": map[string]string{}})
			p := mutatePath(r, []string{"/v1/x", "/v11/", "/v1", "/x/v1/"}[r.IntN(4)], true)
			reqs = append(reqs, map[string]any{"op": "pv", "path": l1enc(p), "hdr": map[string]string{}})
			a := accSeeds[r.IntN(len(accSeeds))]
			if r.IntN(2) == 0 {
				a = mutatePath(r, a, true)
			}
			reqs = append(reqs, map[string]any{"op": "hvm", "path": "/x", "hdr": map[string]string{"Accept": l1enc(a)}})
		}
		c := map[string]any{"fam": "match", "id": fmt.Sprintf("gmb:%d", ci), "ops": ops, "reqs": reqs}
		b, _ := json.Marshal(c)
		out.Write(b)
		out.WriteByte('\n')
	}
}

// ---- C20: random keys / values (arbitrary bytes, numeric edge cases), longer op sequences
var numEdge = []string{"", "-", "+", "+-1", "0", "-0", "+5", "9223372036854775807", "9223372036854775808", "-9223372036854775808", "-9223372036854775809", "18446744073709551615",
	"18446744073709551616", "1e309", "-1e309", "1e-400", "NaN", "nan", "Inf", "-inf", "true", "T", "f", "FALSE", "0x1f", "0b1", "1_000", " 1", "1 ", "1.5", "٣", "1e5", ".5", "5."}

func genParams(r *rand.Rand, n int, out *bufio.Writer) {
	for ci := 0; ci < n; ci++ {
		keys := []string{"", "k1", "k2", randBytes(r, 4), "键"}
		val := func() string {
			switch r.IntN(4) {
			case 0:
				return randBytes(r, 8)
			case 1:
				return fmt.Sprint(r.Int64() - r.Int64())
			}
			return numEdge[r.IntN(len(numEdge))]
		}
		ops := []map[string]any{}
		for s := 0; s < 6+r.IntN(8); s++ {
			k := keys[r.IntN(len(keys))]
			switch r.IntN(14) {
			case 12, 13:
				ops = append(ops, map[string]any{"op": "delset", "key": l1enc(k), "key2": l1enc(keys[r.IntN(len(keys))]), "val": l1enc(val())})
			case 11:
				ops = append(ops, map[string]any{"op": "stale"})
			case 10:
				ops = append(ops, map[string]any{"op": "fill", "n": 20 + r.IntN(30)})
			case 0:
				ops = append(ops, map[string]any{"op": "reset"})
			case 1, 2:
				ops = append(ops, map[string]any{"op": "recycle"})
			case 3, 4:
				ops = append(ops, map[string]any{"op": "del", "key": l1enc(k)})
			default:
				ops = append(ops, map[string]any{"op": "set", "key": l1enc(k), "val": l1enc(val())})
			}
		}
		ks := make([]string, len(keys))
		for i, k := range keys {
			ks[i] = l1enc(k)
		}
		c := map[string]any{"fam": "params", "id": fmt.Sprintf("gpar:%d", ci), "ops": ops, "keys": ks}
		b, _ := json.Marshal(c)
		out.Write(b)
		out.WriteByte('\n')
	}
}

// ---- C08: long random handler programs
func genHead(r *rand.Rand, n int, out *bufio.Writer) {
	keys := []string{"X-A", "X-B", "Content-Type", "Cache-Control", "Content-Length"}
	codes := []int{200, 201, 202, 400, 404, 500}
	for ci := 0; ci < n; ci++ {
		ops := []map[string]any{}
		for k := 0; k < 20; k++ {
			prog := []map[string]any{}
			for s := 0; s < 3+r.IntN(10); s++ {
				switch r.IntN(6) {
				case 0:
					prog = append(prog, map[string]any{"k": "wh", "a": "", "b": "", "n": codes[r.IntN(len(codes))]})
				case 1, 2:
					prog = append(prog, map[string]any{"k": "w", "a": "", "b": "", "n": []int{0, 1, 3, 100, 5000}[r.IntN(5)]})
				default:
					prog = append(prog, map[string]any{"k": "set", "a": keys[r.IntN(len(keys))], "b": fmt.Sprint(r.IntN(4)), "n": 0})
				}
			}
			if r.IntN(4) == 0 { // the handler panics somewhere; a bundled recovery option answers
				prog = append(prog[:r.IntN(len(prog)+1)], map[string]any{"k": "panic", "a": "", "b": "", "n": 0})
			}
			ops = append(ops, map[string]any{"op": "prog", "prog": prog})
		}
		c := map[string]any{"fam": "head", "id": fmt.Sprintf("ghead:%d", ci), "ops": ops}
		b, _ := json.Marshal(c)
		out.Write(b)
		out.WriteByte('\n')
	}
}

// ---- C11 / C12: random configurations x requests with random case and spacing
func randCase(r *rand.Rand, s string) string {
	b := []byte(s)
	for i := range b {
		if r.IntN(2) == 0 {
			if b[i] >= 'a' && b[i] <= 'z' {
				b[i] -= 32
			} else if b[i] >= 'A' && b[i] <= 'Z' {
				b[i] += 32
			}
		}
	}
	return string(b)
}

func genCors(r *rand.Rand, n int, out *bufio.Writer) {
	origins := []string{"https://o1.example", "https://o2.example", "http://o1.example", "null", "*"}
	hnames := []string{"Content-Type", "X-A", "X-Token", "Authorization", "X-CSRF-Token", "X-Client-Id", "content-length", "x-b", "*"}
	pick := func(pool []string, max int) []string {
		k := r.IntN(max + 1)
		out := []string{}
		for i := 0; i < k; i++ {
			out = append(out, pool[r.IntN(len(pool))])
		}
		return out
	}
	sp := func() string { return []string{"", " ", "  ", "\t"}[r.IntN(4)] }
	for ci := 0; ci < n; ci++ {
		cors := map[string]any{"on": true, "origins": pick(origins, 3), "allow": pick(hnames, 4), "expose": pick([]string{"E1", "E2", "X-Rate"}, 2),
			"maxage": []int{0, -1, -2, 50, 86400}[r.IntN(5)], "cred": r.IntN(3) == 0}
		cfg := map[string]any{"name": "r", "trace": false, "icpt": map[string]string{}, "domain": "", "cors": cors}
		ops := []map[string]any{
			{"op": "handle", "pat": "/a", "methods": []string{"GET", "POST"}, "mws": []string{}, "chain": []any{}, "res": false},
			{"op": "handle", "pat": "/b/{id}", "methods": []string{"DELETE"}, "mws": []string{}, "chain": []any{}, "res": false},
		}
		reqs := []map[string]any{}
		for k := 0; k < 60; k++ {
			hdr := map[string]string{}
			if r.IntN(5) > 0 {
				o := origins[r.IntN(4)]
				if r.IntN(6) == 0 {
					o = randCase(r, o)
				}
				if r.IntN(8) == 0 {
					o = "https://evil.example"
				}
				hdr["Origin"] = o
			}
			if r.IntN(2) == 0 {
				m := []string{"GET", "POST", "DELETE", "PUT", "post", "HEAD", "OPTIONS"}[r.IntN(7)]
				hdr["Access-Control-Request-Method"] = m
			}
			if r.IntN(2) == 0 {
				k := 1 + r.IntN(3)
				parts := []string{}
				for i := 0; i < k; i++ {
					h := hnames[r.IntN(8)]
					switch r.IntN(8) {
					case 0:
						h = "X-Evil"
					case 1:
						h = h[:1+r.IntN(len(h))]
					case 2: // names a browser may send unasked (CORS-safelisted): still granted only when configured
						h = []string{"Accept", "Accept-Language", "Content-Language", "Range"}[r.IntN(4)]
					}
					parts = append(parts, sp()+randCase(r, h)+sp())
				}
				hdr["Access-Control-Request-Headers"] = strings.Join(parts, ",")
			}
			reqs = append(reqs, map[string]any{"op": "req", "method": []string{"GET", "POST", "OPTIONS", "OPTIONS", "DELETE", "HEAD", "PUT"}[r.IntN(7)],
				"path": []string{"/a", "/b/7", "/missing", "*", "/a"}[r.IntN(5)], "hdr": hdr})
		}
		c := map[string]any{"fam": "router", "id": fmt.Sprintf("gcors:%d", ci), "cfg": cfg, "ops": ops, "reqs": reqs, "battery": "none"}
		b, _ := json.Marshal(c)
		out.Write(b)
		out.WriteByte('\n')
	}
}

// ---- C05 / C13: arbitrary Host / path / Accept bytes through Group.ServeHTTP
func genGroupBytes(r *rand.Rand, n int, out *bufio.Writer) {
	rc := func(name string) map[string]any {
		return map[string]any{"name": name, "trace": false, "lock": false, "icpt": gIcpt, "domain": "", "recovery": false}
	}
	hosts := func(ds ...string) map[string]any { return map[string]any{"t": "hosts", "domains": ds} }
	pv := func(vs ...string) map[string]any {
		return map[string]any{"t": "pathver", "param": "ver", "versions": vs}
	}
	hv := func(vs ...string) map[string]any {
		return map[string]any{"t": "headerver", "param": "hv", "key": "version", "versions": vs}
	}
	and := func(ms ...any) map[string]any { return map[string]any{"t": "and", "ms": ms} }
	or := func(ms ...any) map[string]any { return map[string]any{"t": "or", "ms": ms} }
	ms := []any{hosts("a.com"), hosts("{sub}.b.com", "c.com"), pv("v1", "v11"), hv("v2"), and(pv("v1"), hosts("a.com")), or(and(hv("v2"), hosts("a.com")), pv("v2")), map[string]any{"t": "nil"}}
	for ci := 0; ci < n; ci++ {
		ops := []map[string]any{}
		names := []string{"r1", "r2", "r3"}
		for i, nm := range names {
			ops = append(ops, map[string]any{"op": "gnew", "inst": nm, "m": ms[(ci+i*3+r.IntN(3))%len(ms)], "cfg": rc(nm)})
			ops = append(ops, map[string]any{"op": "handle", "inst": nm, "pat": "/x", "methods": []string{"GET"}, "mws": []string{}})
			ops = append(ops, map[string]any{"op": "handle", "inst": nm, "pat": "/{rest}", "methods": []string{"GET"}, "mws": []string{}})
		}
		reqs := []map[string]any{}
		for k := 0; k < 40; k++ {
			h := []string{"a.com", "s.b.com", "A.COM:80", "c.com", "[::1]"}[r.IntN(5)]
			p := []string{"/v1/x", "/v11/x", "/x", "/v2/7q", "/v1"}[r.IntN(5)]
			a := []string{"", "application/json; version=v2", "text/html"}[r.IntN(3)]
			switch r.IntN(4) {
			case 0:
				h = mutatePath(r, h, true)
			case 1:
				p = mutatePath(r, p, true)
			case 2:
				a = mutatePath(r, a, true)
			}
			hdr := map[string]string{}
			if a != "" {
				hdr["Accept"] = l1enc(a)
			}
			reqs = append(reqs, map[string]any{"op": "gserve", "inst": "", "method": []string{"GET", "POST", "OPTIONS", randBytes(r, 3)}[r.IntN(4)],
				"path": l1enc(p), "host": l1enc(h), "hdr": hdr, "faults": map[string]string{}})
		}
		c := map[string]any{"fam": "group", "id": fmt.Sprintf("ggb:%d", ci), "cfg": map[string]any{"recovery": false, "name": "g"}, "ops": ops, "reqs": reqs}
		b, _ := json.Marshal(c)
		out.Write(b)
		out.WriteByte('\n')
	}
}

func cmdGen(args []string) {
	fs := flag.NewFlagSet("gen", flag.ExitOnError)
	fam := fs.String("fam", "router", "")
	mode := fs.String("mode", "mixed", "")
	seed := fs.Uint64("seed", 1, "")
	n := fs.Int("n", 100, "")
	outp := fs.String("out", "cases.ndjson", "")
	fs.Parse(args)
	f, err := os.Create(*outp)
	if err != nil {
		fmt.Fprintln(os.Stderr, err)
		os.Exit(2)
	}
	out := bufio.NewWriterSize(f, 1<<20)
	r := rand.New(rand.NewPCG(*seed, 0x9e3779b97f4a7c15))
	switch *fam {
	case "router":
		if *mode == "patterns" {
			genPatterns(r, *n, 0, out)
		} else if strings.HasPrefix(*mode, "patenum") {
			L := 4
			fmt.Sscanf(*mode, "patenum%d", &L)
			genPatterns(r, 0, L, out)
		} else {
			genRouter(r, *n, *mode, out)
		}
	case "match":
		genMatchBytes(r, *n, out)
	case "params":
		genParams(r, *n, out)
	case "head":
		genHead(r, *n, out)
	case "cors":
		genCors(r, *n, out)
	case "group":
		genGroupBytes(r, *n, out)
	default:
		fmt.Fprintln(os.Stderr, "gen: unknown family", *fam)
		os.Exit(2)
	}
	out.Flush()
	f.Close()
}
