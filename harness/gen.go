package main

import (
	"fmt"
	"os"
)

func cmdGen(args []string) {
	fmt.Fprintln(os.Stderr, "gen: not built yet")
	os.Exit(2)
}
