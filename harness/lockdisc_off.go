//go:build !verif

package main

import (
	"fmt"
	"os"

	"github.com/issue9/mux/v9"
)

func dumpTree(r *mux.Router[*H]) string { return "" }

func (rn *runner) runLockCase(c *Case) {
	fmt.Fprintln(os.Stderr, "the lockdisc family needs a harness built with -tags verif")
	os.Exit(2)
}
