//go:build !verif

package main

import (
	"fmt"
	"os"
)

func (rn *runner) runLockCase(c *Case) {
	fmt.Fprintln(os.Stderr, "the lockdisc family needs a harness built with -tags verif")
	os.Exit(2)
}
