package main

import (
	"errors"
	"strconv"

	"github.com/issue9/mux/v9/types"
)

// ---------------------------------------------------------------- params family (C20)

func errClass(err error) string {
	switch {
	case err == nil:
		return "none"
	case errors.Is(err, types.ErrParamNotExists()):
		return "notexists"
	}
	return "other"
}

func fmtF(f float64) string { return strconv.FormatFloat(f, 'g', -1, 64) }

func scJSON(val string) string {
	i, ei := strconv.ParseInt(val, 10, 64)
	u, eu := strconv.ParseUint(val, 10, 64)
	b, eb := strconv.ParseBool(val)
	f, ef := strconv.ParseFloat(val, 64)
	return obj("val", js(val),
		"int", obj("v", js(strconv.FormatInt(i, 10)), "ok", jbool(ei == nil)),
		"uint", obj("v", js(strconv.FormatUint(u, 10)), "ok", jbool(eu == nil)),
		"bool", obj("v", js(strconv.FormatBool(b)), "ok", jbool(eb == nil)),
		"float", obj("v", js(fmtF(f)), "ok", jbool(ef == nil)))
}

func (rn *runner) pobs(ctx *types.Context, key string) {
	var line string
	res, _ := guard(func() {
		rng := map[string]string{}
		ctx.Range(func(k, v string) { rng[k] = v })
		gv, gok := ctx.Get(key)
		sv, serr := ctx.String(key)
		iv, ierr := ctx.Int(key)
		uv, uerr := ctx.Uint(key)
		bv, berr := ctx.Bool(key)
		fv, ferr := ctx.Float(key)
		stored := rng[key] // the text the strconv answers are logged for
		line = obj("count", jint(ctx.Count()), "range", jmap(rng), "exists", jbool(ctx.Exists(key)),
			"get", obj("v", js(gv), "ok", jbool(gok)),
			"str", obj("v", js(sv), "err", js(errClass(serr))), "mustStr", js(ctx.MustString(key, "DEF")),
			"int", obj("v", js(strconv.FormatInt(iv, 10)), "err", js(errClass(ierr))), "mustInt", js(strconv.FormatInt(ctx.MustInt(key, 4242), 10)),
			"uint", obj("v", js(strconv.FormatUint(uv, 10)), "err", js(errClass(uerr))), "mustUint", js(strconv.FormatUint(ctx.MustUint(key, 4242), 10)),
			"bool", obj("v", js(strconv.FormatBool(bv)), "err", js(errClass(berr))), "mustBool", js(strconv.FormatBool(ctx.MustBool(key, true))),
			"float", obj("v", js(fmtF(fv)), "err", js(errClass(ferr))), "mustFloat", js(fmtF(ctx.MustFloat(key, 42.5))),
			"sc", scJSON(stored))
	})
	if res != "ok" {
		line = "{}"
	}
	rn.stats.exec++
	rn.emit(obj("ev", js("pobs"), "key", js(key), "res", js(res), "o", line))
}

func (rn *runner) runParamsCase(c *Case) {
	rn.runParamsOnce(c, false)
	rn.runParamsOnce(c, true)
}

// fresh: start from a brand-new zero-value Context (its parameter map not yet allocated) instead of a pooled one
func (rn *runner) runParamsOnce(c *Case, fresh bool) {
	rn.emit(obj("ev", js("xreset"), "fam", js("params"), "id", js(c.ID), "fresh", jbool(fresh)))
	rn.stats.cases++
	ctx := types.NewContext()
	if fresh {
		ctx = new(types.Context)
	}
	for _, k := range c.Keys {
		rn.pobs(ctx, k)
	}
	for i := range c.Ops {
		op := &c.Ops[i]
		rn.stats.ops++
		res, _ := guard(func() {
			switch op.Op {
			case "set":
				ctx.Set(op.Key, op.Val)
			case "del":
				ctx.Delete(op.Key)
			case "fill":
				for i := 1; i <= op.N; i++ {
					ctx.Set("f"+strconv.Itoa(i), "v")
				}
			case "reset":
				ctx.Reset()
			case "recycle":
				ctx.Destroy()
				ctx = types.NewContext()
			case "delset":
				ctx.Delete(op.Key)
				ctx.Set(op.Key2, op.Val)
			case "stale": // a late writer touches the context after it went back to the pool
				old := ctx
				ctx.Destroy()
				old.Set("late", "1")
				ctx = types.NewContext()
			default:
				panic("unknown params op " + op.Op)
			}
		})
		o := obj("op", js(op.Op), "key", js(op.Key), "val", js(op.Val), "n", jint(op.N), "key2", js(op.Key2))
		rn.emit(obj("ev", js("pop"), "o", o, "res", js(res)))
		for _, k := range c.Keys {
			rn.pobs(ctx, k)
		}
	}
	ctx.Destroy()
}
