package main

import (
	"net/http"
	"sort"

	"github.com/issue9/mux/v9"
)

func hasPanicStep(p []Step) bool {
	for _, s := range p {
		if s.K == "panic" {
			return true
		}
	}
	return false
}

// ---------------------------------------------------------------- head family (C08)
// Every handler program is installed as the GET handler of a fresh router and requested
// once with GET and once with HEAD; what reached the client is recorded for both.

func progJSON(p []Step) string {
	xs := make([]string, len(p))
	for i, s := range p {
		xs[i] = obj("k", js(s.K), "a", js(s.A), "b", js(s.B), "n", jint(s.N))
	}
	return jraw(xs)
}

func hdrJSON(h http.Header) string {
	m := map[string]string{}
	ks := make([]string, 0, len(h))
	for k := range h {
		ks = append(ks, k)
	}
	sort.Strings(ks)
	for _, k := range ks {
		if len(h[k]) > 0 {
			m[k] = h[k][0]
		}
	}
	return jmap(m)
}

func respJSON(o *obs) string {
	return obj("status", jint(o.w.status), "hdr", hdrJSON(o.w.sent), "body", jint(o.w.body), "panic", js(o.panicKind),
		"kind", js(o.kind), "h", js(o.h))
}

func (rn *runner) runHeadCase(c *Case) {
	rn.emit(obj("ev", js("reset"), "fam", js("head"), "id", js(c.ID)))
	rn.stats.cases++
	for i := range c.Ops {
		op := &c.Ops[i]
		e := &env{}
		cfg := &Cfg{Name: "r"}
		var r *mux.Router[*H]
		if hasPanicStep(op.Prog) { // a panicking program runs under a bundled recovery option
			r = mux.NewRouter[*H]("r", e.call, &H{kind: "404"}, b405, bopt, mux.WithStatusRecovery(500))
		} else {
			r = e.newRouter(cfg)
		}
		r.Get("/h", &H{kind: "route", id: "h", prog: op.Prog})
		g := e.serve(r, mkRequest("GET", "/h", "", nil))
		h := e.serve(r, mkRequest("HEAD", "/h", "", nil))
		rn.stats.exec += 2
		rn.stats.ops++
		rn.emit(obj("ev", js("headpair"), "prog", progJSON(op.Prog), "get", respJSON(g), "head", respJSON(h)))
	}
}
