module verif/harness

go 1.23.0

require github.com/issue9/mux/v9 v9.0.0

require (
	github.com/issue9/assert/v4 v4.3.1 // indirect
	github.com/issue9/errwrap v0.3.2 // indirect
	github.com/issue9/source v0.12.5 // indirect
	golang.org/x/mod v0.24.0 // indirect
)

replace github.com/issue9/mux/v9 => /repo
