package main

import (
	"net/http"

	"github.com/issue9/mux/v9"
	"github.com/issue9/mux/v9/types"
)

// ---------------------------------------------------------------- match family (C14 Hosts, C15 version matchers)

func ctxParams(ctx *types.Context) map[string]string {
	m := map[string]string{}
	ctx.Range(func(k, v string) { m[k] = v })
	return m
}

func icptFunc(class string) mux.InterceptorFunc {
	switch class {
	case "digit":
		return func(s string) bool {
			for i := 0; i < len(s); i++ {
				if s[i] < '0' || s[i] > '9' {
					return false
				}
			}
			return len(s) > 0
		}
	case "any":
		return func(s string) bool { return len(s) > 0 }
	case "lower":
		return matchLower
	}
	return func(s string) bool { // word
		for i := 0; i < len(s); i++ {
			c := s[i]
			if !(c >= '0' && c <= '9' || c >= 'a' && c <= 'z' || c >= 'A' && c <= 'Z') {
				return false
			}
		}
		return len(s) > 0
	}
}

func (rn *runner) runMatchCase(c *Case) {
	rn.emit(obj("ev", js("xreset"), "fam", js("match"), "id", js(c.ID)))
	rn.stats.cases++
	var hs *mux.Hosts
	var pv, hv, hv2 mux.Matcher
	var alt Op
	var curPV, curHV *Op // the declaration each matcher was built from (one per kind: a case may declare both)
	do := func(op *Op) {
		rn.stats.ops++
		switch op.Op {
		case "hnew":
			res, _ := guard(func() { hs = mux.NewHosts(op.Flag, op.Domains...) })
			rn.emit(obj("ev", js("hnew"), "domains", jarr(op.Domains), "res", js(res), "re", reTableAll(op.Domains)))
		case "hicpt":
			res, _ := guard(func() { hs.RegisterInterceptor(icptFunc(op.Val), op.Key) })
			rn.emit(obj("ev", js("hicpt"), "rule", js(op.Key), "class", js(op.Val), "res", js(res)))
		case "hadd":
			res, _ := guard(func() { hs.Add(op.Domains...) })
			rn.emit(obj("ev", js("hadd"), "domains", jarr(op.Domains), "res", js(res), "re", reTableAll(op.Domains)))
		case "hdelete":
			res, _ := guard(func() { hs.Delete(op.Pat) })
			rn.emit(obj("ev", js("hdelete"), "domain", js(op.Pat), "res", js(res)))
		case "hmatch":
			ctx := types.NewContext()
			var ok bool
			res, _ := guard(func() { ok = hs.Match(mkRequest("GET", "/", op.Host, nil), ctx) })
			rn.stats.exec++
			rn.emit(obj("ev", js("hmatch"), "host", js(op.Host), "wit", js(op.Pat), "wps", jmap(op.Params), "ok", jbool(ok), "params", jmap(ctxParams(ctx)), "res", js(res)))
			ctx.Destroy()
		case "pathver":
			curPV = op
			res, _ := guard(func() { pv = mux.NewPathVersion(op.Key, append([]string{}, op.Versions...)...) })
			rn.emit(obj("ev", js("pathver"), "param", js(op.Key), "versions", jarr(op.Versions), "res", js(res)))
		case "headerver":
			curHV = op
			var errlog func(error)
			if op.Val == "" { // the default key gets an explicit log function, a custom key the default (nil) one
				errlog = func(error) {}
			}
			res, _ := guard(func() { hv = mux.NewHeaderVersion(op.Key, op.Val, errlog, op.Versions...) })
			rn.emit(obj("ev", js("headerver"), "param", js(op.Key), "key", js(op.Val), "versions", jarr(op.Versions), "res", js(res)))
			// a second matcher that reads ANOTHER Accept parameter: every request is shown to both, one after the other
			alt = *op
			alt.Val = "v"
			if op.Val == "v" {
				alt.Val = "version"
			}
			guard(func() { hv2 = mux.NewHeaderVersion(alt.Key, alt.Val, errlog, alt.Versions...) })
		case "pv", "hvm":
			one := func(m mux.Matcher, d *Op) {
				ctx := types.NewContext()
				ctx.Set("keep", "1") // a parameter captured earlier must survive untouched
				req := mkRequest("GET", op.Path, "", op.Hdr)
				var ok bool
				res, _ := guard(func() { ok = m.Match(req, ctx) })
				rn.stats.exec++
				rn.emit(obj("ev", js(op.Op), "param", js(d.Key), "key", js(d.Val), "versions", jarr(d.Versions), "path", js(op.Path), "accept", js(op.Hdr["Accept"]),
					"mime", mimeJSON(op.Hdr["Accept"]), "ok", jbool(ok), "newpath", js(req.URL.Path), "params", jmap(ctxParams(ctx)), "res", js(res)))
				ctx.Destroy()
			}
			if op.Op == "pv" {
				one(pv, curPV)
			} else {
				one(hv, curHV)
				if hv2 != nil {
					one(hv2, &alt)
					one(hv, curHV)
				}
			}
		default:
			panic("unknown match op " + op.Op)
		}
	}
	for i := range c.Ops {
		do(&c.Ops[i])
	}
	for i := range c.Reqs {
		do(&c.Reqs[i])
	}
}

func reTableAll(ds []string) string {
	m := map[string]string{}
	for _, d := range ds {
		for _, sm := range tokRe.FindAllStringSubmatch(d, -1) {
			m[sm[1]] = "1"
			if !compiles(sm[1]) {
				m[sm[1]] = "0"
			}
		}
	}
	return jmap(m)
}

var _ = http.MethodGet
