package main

import (
	"bufio"
	"encoding/json"
	"flag"
	"fmt"
	"os"
)

// muxdrive run -in cases.ndjson -out trace.ndjson
//   executes TLC-generated (or driver-generated) cases on the real issue9/mux
//   built from /repo's working tree and records what it did as NDJSON events.
// muxdrive gen  -fam F -seed S -n N -out cases.ndjson
//   Go-side randomized input drivers (inputs only, no expectations).

func main() {
	if len(os.Args) < 2 {
		fmt.Fprintln(os.Stderr, "usage: muxdrive run|gen ...")
		os.Exit(2)
	}
	switch os.Args[1] {
	case "run":
		cmdRun(os.Args[2:])
	case "gen":
		cmdGen(os.Args[2:])
	case "conc1":
		cmdConc1()
	default:
		fmt.Fprintln(os.Stderr, "unknown command", os.Args[1])
		os.Exit(2)
	}
}

func cmdRun(args []string) {
	fs := flag.NewFlagSet("run", flag.ExitOnError)
	in := fs.String("in", "", "cases (ndjson)")
	out := fs.String("out", "trace.ndjson", "trace output")
	nodedup := fs.Bool("nodedup", false, "write every observation")
	fs.Parse(args)
	f, err := os.Open(*in)
	if err != nil {
		fmt.Fprintln(os.Stderr, err)
		os.Exit(2)
	}
	defer f.Close()
	of, err := os.Create(*out)
	if err != nil {
		fmt.Fprintln(os.Stderr, err)
		os.Exit(2)
	}
	rn := &runner{out: bufio.NewWriterSize(of, 1<<20), seen: map[string]bool{}, nodedup: *nodedup}
	sc := bufio.NewScanner(f)
	sc.Buffer(make([]byte, 1<<20), 1<<28)
	ln := 0
	for sc.Scan() {
		ln++
		b := sc.Bytes()
		if len(b) == 0 {
			continue
		}
		var c Case
		if err := json.Unmarshal(b, &c); err != nil {
			fmt.Fprintf(os.Stderr, "case line %d: %v\n", ln, err)
			os.Exit(2)
		}
		normalizeCase(&c)
		if c.Pool != nil && len(c.Ops) == 0 && c.Fam == "" {
			rn.pool = c.Pool
			continue
		}
		if c.Fam == "conc" {
			rn.runConcCase(&c, append([]byte{}, b...))
			continue
		}
		rn.runCase(&c)
	}
	rn.out.Flush()
	of.Close()
	fmt.Fprintf(os.Stderr, "STATS {\"cases\":%d,\"ops\":%d,\"exec\":%d,\"events\":%d}\n", rn.stats.cases, rn.stats.ops, rn.stats.exec, rn.stats.events)
}

func (rn *runner) runCase(c *Case) {
	switch c.Fam {
	case "", "router":
		rn.runRouterCase(c)
	case "head":
		rn.runHeadCase(c)
	case "group":
		rn.runGroupCase(c)
	case "match":
		rn.runMatchCase(c)
	case "params":
		rn.runParamsCase(c)
	case "lockdisc":
		rn.runLockCase(c)
	default:
		fmt.Fprintln(os.Stderr, "unknown family", c.Fam)
		os.Exit(2)
	}
}
