package main

import (
	"bufio"
	"fmt"
	"io"
	"net/http"
	"net/http/httputil"
	"regexp"
	"sort"
	"strings"

	"github.com/issue9/mux/v9"
	"github.com/issue9/mux/v9/types"
)

// ---------------------------------------------------------------- router family

type rinst struct {
	objs   map[string]facade // long-lived Prefix / Resource objects
	r      *mux.Router[*H]
	e      *env
	cfg    *Cfg
	shadow map[string]map[string]string // pattern -> method -> handler id; ONLY a dedup key, never an expectation
	nuse   int
	prev   map[string]string // probe key -> compact reply of the previous battery
	hcount map[string]int
	// (pattern, parameters) pairs for which a strict URL was built once: asked again in every later battery, also when the
	// route has been removed or cleaned meanwhile (a strict URL of a dead route must fail)
	urlMemo     []Op
	urlMemoSeen map[string]bool
}

func (in *rinst) rememberURL(pat string, params map[string]string) {
	k := pat + "|" + jmap(params)
	if in.urlMemoSeen == nil {
		in.urlMemoSeen = map[string]bool{}
	}
	if in.urlMemoSeen[k] || len(in.urlMemo) >= 24 {
		return
	}
	in.urlMemoSeen[k] = true
	in.urlMemo = append(in.urlMemo, Op{Op: "url", Pat: pat, Strict: true, Params: SMap(params)})
}

type runner struct {
	out     *bufio.Writer
	seen    map[string]bool
	pool    *Pool
	stats   struct{ cases, ops, exec, events int }
	nodedup bool
}

func (rn *runner) emit(line string) {
	rn.out.WriteString(line)
	rn.out.WriteByte('\n')
	rn.stats.events++
}

var tokRe = regexp.MustCompile(`\{[^{}:]*:([^{}]*)\}`)

// reTable logs the stdlib's answer "does this rule compile" for every rule-looking
// token of the pattern (a logged input of the specification, DESIGN A1).
func reTable(pat string) string {
	m := map[string]string{}
	for _, sm := range tokRe.FindAllStringSubmatch(pat, -1) {
		if _, err := regexp.Compile(sm[1]); err == nil { // the rule on its own: "a)|(b" is not a regular expression
			m[sm[1]] = "1"
		} else {
			m[sm[1]] = "0"
		}
	}
	return jmap(m)
}

func compiles(rule string) bool {
	_, err := regexp.Compile(rule)
	return err == nil
}

func (in *rinst) stateKey() string {
	ps := make([]string, 0, len(in.shadow))
	for p, ms := range in.shadow {
		xs := make([]string, 0, len(ms))
		for m, h := range ms {
			xs = append(xs, m+"="+h)
		}
		sort.Strings(xs)
		ps = append(ps, p+"\x00"+strings.Join(xs, ","))
	}
	sort.Strings(ps)
	return fmt.Sprintf("%v|%v|%d|%s", in.cfg.Trace, in.cfg.Icpt, in.nuse, strings.Join(ps, "\x01"))
}

func chainJSON(ch []ChainEl) string {
	xs := make([]string, len(ch))
	for i, c := range ch {
		xs[i] = obj("p", js(c.P), "mws", jarr(c.Mws))
	}
	return jraw(xs)
}

func wrapsJSON(ws []wrapLog) string {
	xs := make([]string, len(ws))
	for i, w := range ws {
		xs[i] = jarr([]string{w.tag, w.method, w.pattern, w.router})
	}
	return jraw(xs)
}

// facade resolves the Prefix chain / Resource an op goes through.
type facade struct {
	p   *mux.Prefix[*H]
	res *mux.Resource[*H]
}

func (in *rinst) facade(op *Op) facade {
	if op.Fid != "" {
		if f, ok := in.objs[op.Fid]; ok {
			return f
		}
	}
	var f facade
	n := len(op.Chain)
	if op.Res {
		n--
	}
	i0 := 0
	if par, ok := in.objs[op.Parent]; ok && op.Parent != "" && par.p != nil && len(op.Chain) > 0 {
		// made FROM a stored object: only the last chain element is new
		f.p = par.p
		i0 = len(op.Chain) - 1
	}
	for i := i0; i < n; i++ {
		c := op.Chain[i]
		if f.p == nil {
			f.p = in.r.Prefix(c.P, in.e.mws(c.Mws)...)
		} else {
			f.p = f.p.Prefix(c.P, in.e.mws(c.Mws)...)
		}
	}
	if op.Res {
		c := op.Chain[len(op.Chain)-1]
		if f.p == nil {
			f.res = in.r.Resource(c.P, in.e.mws(c.Mws)...)
		} else {
			f.res = f.p.Resource(c.P, in.e.mws(c.Mws)...)
		}
	}
	return f
}

// desugar gives the plain Router call a facade op stands for (used ONLY to drive the
// mirror instance of C19; the expectation lives in the specification).
func desugar(op *Op) (pat string, mws []string) {
	mws = append([]string{}, op.Mws...)
	for i := len(op.Chain) - 1; i >= 0; i-- {
		mws = append(mws, op.Chain[i].Mws...)
	}
	for _, c := range op.Chain {
		pat += c.P
	}
	if !op.Res {
		pat += op.Pat
	}
	return
}

func (in *rinst) hid(pat string, methods []string) string {
	k := pat + "|" + strings.Join(methods, ",")
	in.hcount[k]++
	return fmt.Sprintf("%s#%d", k, in.hcount[k])
}

func (in *rinst) doHandle(op *Op, h string, plain bool) (res, msg string) {
	hd := &H{kind: "route", id: h, prog: op.Prog}
	return guard(func() {
		if plain || (len(op.Chain) == 0 && op.Verb == "") {
			pat, mws := desugar(op)
			in.r.Handle(pat, hd, in.e.mws(mws), op.Methods...)
			return
		}
		if op.Verb != "" { // the shorthand methods Get / Post / Delete / Put / Patch / Any of Router, Prefix and Resource
			in.doVerb(op, hd)
			return
		}
		f := in.facade(op)
		if f.res != nil {
			f.res.Handle(hd, in.e.mws(op.Mws), op.Methods...)
		} else {
			f.p.Handle(op.Pat, hd, in.e.mws(op.Mws), op.Methods...)
		}
	})
}

// doVerb calls the shorthand method named by op.Verb on the receiver the op goes through; the
// specification expects what Handle with op.Methods (set by the generator) prescribes.
func (in *rinst) doVerb(op *Op, hd *H) {
	ms := in.e.mws(op.Mws)
	if len(op.Chain) == 0 {
		fs := map[string]func(string, *H, ...types.Middleware[*H]) *mux.Router[*H]{
			"get": in.r.Get, "post": in.r.Post, "delete": in.r.Delete, "put": in.r.Put, "patch": in.r.Patch, "any": in.r.Any}
		fs[op.Verb](op.Pat, hd, ms...)
		return
	}
	f := in.facade(op)
	if f.res != nil {
		fs := map[string]func(*H, ...types.Middleware[*H]) *mux.Resource[*H]{
			"get": f.res.Get, "post": f.res.Post, "delete": f.res.Delete, "put": f.res.Put, "patch": f.res.Patch, "any": f.res.Any}
		fs[op.Verb](hd, ms...)
		return
	}
	fs := map[string]func(string, *H, ...types.Middleware[*H]) *mux.Prefix[*H]{
		"get": f.p.Get, "post": f.p.Post, "delete": f.p.Delete, "put": f.p.Put, "patch": f.p.Patch, "any": f.p.Any}
	fs[op.Verb](op.Pat, hd, ms...)
}

func (in *rinst) doRemove(op *Op, plain bool) (res, msg string) {
	return guard(func() {
		if plain || len(op.Chain) == 0 {
			pat, _ := desugar(op)
			in.r.Remove(pat, op.Methods...)
			return
		}
		f := in.facade(op)
		if f.res != nil {
			f.res.Remove(op.Methods...)
		} else {
			f.p.Remove(op.Pat, op.Methods...)
		}
	})
}

// clean: prefix "" with no chain is Router.Clean(); a chain ending in a Resource is
// Resource.Clean(); otherwise Prefix.Clean() of the chained prefix.
func (in *rinst) doClean(op *Op, plain bool) (res, msg string) {
	return guard(func() {
		if len(op.Chain) == 0 {
			in.r.Clean()
			return
		}
		if plain {
			pat, _ := desugar(op)
			if op.Res {
				in.r.Remove(pat)
			} else {
				in.r.Prefix(pat).Clean()
			}
			return
		}
		f := in.facade(op)
		if f.res != nil {
			f.res.Clean()
		} else {
			f.p.Clean()
		}
	})
}

func (in *rinst) doURL(op *Op, plain bool) (val string, ok bool, res string) {
	res, _ = guard(func() {
		var err error
		switch {
		case op.Key == "mux":
			val, err = mux.URL(op.Pat, op.Params)
		case plain || len(op.Chain) == 0:
			pat, _ := desugar(op)
			val, err = in.r.URL(op.Strict, pat, op.Params)
		default:
			f := in.facade(op)
			if f.res != nil {
				val, err = f.res.URL(op.Strict, op.Params)
			} else {
				val, err = f.p.URL(op.Strict, op.Pat, op.Params)
			}
		}
		ok = err == nil
	})
	return
}

func (in *rinst) shadowHandle(pat string, methods []string, h string) {
	if len(methods) == 0 {
		methods = mux.AnyMethods()
	}
	if in.shadow[pat] == nil {
		in.shadow[pat] = map[string]string{}
	}
	for _, m := range methods {
		in.shadow[pat][m] = h
	}
}

func (in *rinst) shadowRemove(pat string, methods []string) {
	if in.shadow[pat] == nil {
		return
	}
	if len(methods) == 0 {
		delete(in.shadow, pat)
		return
	}
	for _, m := range methods {
		delete(in.shadow[pat], m)
	}
	if len(in.shadow[pat]) == 0 {
		delete(in.shadow, pat)
	}
}

func (in *rinst) shadowClean(prefix string) {
	for q := range in.shadow {
		if strings.HasPrefix(q, prefix) {
			delete(in.shadow, q)
		}
	}
}

func replyJSON(o *obs) string {
	return obj("kind", js(o.kind), "h", js(o.h), "pat", js(o.pat), "hasNode", jbool(o.hasNode), "params", jmap(o.params),
		"allowH", jarr(o.allowH), "hasAllowH", jbool(o.hasAllowH), "allowN", jarr(o.allowN), "order", jarr(o.order),
		"rname", js(o.rname), "panic", js(o.panicKind), "status", jint(o.w.status))
}

func compactReply(o *obs) string {
	return obj("kind", js(o.kind), "h", js(o.h), "pat", js(o.pat), "params", jmap(o.params), "panic", js(o.panicKind),
		"allowH", jarr(o.allowH), "allowN", jarr(o.allowN))
}

const emptyPrev = `{"kind":"","h":"","pat":"","params":{},"panic":"","allowH":[],"allowN":[]}`

// battery probes the instance; silent: only refresh in.prev (frame baseline).
func (rn *runner) battery(in, mir *rinst, silent bool, frame bool) {
	key := in.stateKey()
	if mir != nil {
		key += "||" + mir.stateKey()
	}
	if !silent {
		var routes map[string][]string
		res, _ := guard(func() { routes = in.r.Routes() })
		line := obj("ev", js("routes"), "val", jmaparr(routes), "res", js(res))
		if mir != nil {
			var r2 map[string][]string
			res2, _ := guard(func() { r2 = mir.r.Routes() })
			line = obj("ev", js("routes"), "val", jmaparr(routes), "res", js(res), "hasMirror", "true", "mirror", jmaparr(r2), "mres", js(res2))
		}
		if rn.nodedup || !rn.seen["R"+key+line] {
			rn.seen["R"+key+line] = true
			rn.emit(line)
		}
	}
	newPrev := make(map[string]string, len(rn.pool.Probes)*len(rn.pool.Methods))
	for _, p := range rn.pool.Probes {
		for _, m := range rn.pool.Methods {
			o := in.e.serve(in.r, mkRequest(m, p.Path, "", nil))
			rn.stats.exec++
			pk := m + " " + p.Path
			newPrev[pk] = compactReply(o)
			isRT := rn.pool.RT && o.kind == "route" && o.panicKind == "none" && (m == "GET" || m == "POST")
			if isRT {
				in.rememberURL(o.pat, o.params)
			}
			if silent {
				if isRT { // the silent baseline also builds the URLs (whatever URL building caches is primed before the removal)
					in.doURL(&Op{Op: "url", Pat: o.pat, Strict: true, Params: SMap(o.params)}, false)
				}
				continue
			}
			prev, hasPrev := in.prev[pk]
			if !frame || !hasPrev {
				prev, hasPrev = emptyPrev, false
			}
			kv := []string{"ev", js("serve"), "method", js(m), "path", js(p.Path), "wit", js(p.Wit), "wps", jmap(p.Wps),
				"r", replyJSON(o), "hasPrev", jbool(hasPrev), "prev", prev}
			// C08: what the same path answers to the derived methods, recorded next to a served route
			if o.kind == "route" && o.panicKind == "none" && rn.pool.Link {
				oo := in.e.serve(in.r, mkRequest("OPTIONS", p.Path, "", nil))
				other := "HEAD"
				if m == "HEAD" {
					other = "GET"
				}
				oh := in.e.serve(in.r, mkRequest(other, p.Path, "", nil))
				kv = append(kv, "hasLink", "true", "link", obj("optk", js(oo.kind), "optpat", js(oo.pat), "other", js(other), "ok", js(oh.kind), "oh", js(oh.h), "opat", js(oh.pat)))
			} else {
				kv = append(kv, "hasLink", "false")
			}
			if mir != nil {
				o2 := mir.e.serve(mir.r, mkRequest(m, p.Path, "", nil))
				kv = append(kv, "hasMirror", "true", "mirror", replyJSON(o2))
			} else {
				kv = append(kv, "hasMirror", "false")
			}
			line := obj(kv...)
			fresh := true
			if !rn.nodedup {
				dk := key + line
				if rn.seen[dk] {
					fresh = false
				}
				rn.seen[dk] = true
			}
			if fresh {
				rn.emit(line)
			}
			if isRT {
				for _, strict := range []bool{false, true} {
					rn.urlEvent(in, nil, &Op{Op: "url", Pat: o.pat, Strict: strict, Params: SMap(o.params)}, key, p.Path, true)
				}
			}
		}
	}
	in.prev = newPrev
	if silent {
		return
	}
	for i := range in.urlMemo {
		rn.urlEvent(in, nil, &in.urlMemo[i], key, "", false)
	}
	for i := range rn.pool.URLs {
		rn.urlEvent(in, mir, &rn.pool.URLs[i], key, "", false)
	}
	for i := range rn.pool.TH {
		rn.traceHelper(&rn.pool.TH[i])
	}
	if rn.pool.Dump {
		if d := dumpTree(in.r); d != "" {
			line := obj("ev", js("dump"), "tree", d)
			if rn.nodedup || !rn.seen["D"+key+line] {
				rn.seen["D"+key+line] = true
				rn.emit(line)
			}
		}
	}
}

// traceHelper hands one request to the bundled mux.Trace helper; the stdlib dump of an
// identical request is a logged input of the specification.
func (rn *runner) traceHelper(op *Op) {
	mk := func() *http.Request {
		req := mkRequest(op.Method, op.Path, op.Host, op.Hdr)
		if op.Body != "" {
			req.Body = io.NopCloser(strings.NewReader(op.Body))
			req.ContentLength = int64(len(op.Body))
			if op.N == -1 { // length unknown to the server (chunked / streamed body)
				req.ContentLength = -1
				req.TransferEncoding = []string{"chunked"}
			}
		}
		return req
	}
	dump, derr := httputil.DumpRequest(mk(), op.Flag)
	w := newRecW()
	w.keep = true
	res, _ := guard(func() { mux.Trace(w, mk(), op.Flag) })
	w.finish()
	if max := 8*len(dump) + 1024; len(w.buf) > max {
		// far longer than any escaped dump of this request can be: keep a bounded prefix (it cannot equal the expected text any more),
		// so that a helper that keeps growing its output cannot blow up the trace
		w.buf = w.buf[:max]
	}
	line := obj("ev", js("tracehelper"), "method", js(op.Method), "path", js(op.Path), "hdr", jmap(op.Hdr), "body", js(op.Body), "flag", jbool(op.Flag), "unknownLen", jbool(op.N == -1),
		"status", jint(w.status), "ct", js(w.sent.Get("Content-Type")), "out", js(string(w.buf)), "dump", js(string(dump)), "dumpok", jbool(derr == nil), "res", js(res))
	if !rn.nodedup {
		if rn.seen["T"+line] {
			return
		}
		rn.seen["T"+line] = true
	}
	rn.emit(line)
}

// urlEvent performs one URL call and records it; rtpath != "" marks a round trip of a dispatched request.
func (rn *runner) urlEvent(in, mir *rinst, op *Op, key, rtpath string, isRT bool) {
	val, ok, res := in.doURL(op, false)
	pat, _ := desugar(op)
	kv := []string{"ev", js("url"), "via", js(op.Key), "strict", jbool(op.Strict), "pat", js(op.Pat), "params", jmap(op.Params),
		"chain", chainJSON(op.Chain), "isres", jbool(op.Res), "ok", jbool(ok), "val", js(val), "res", js(res), "re", reTable(pat)}
	if isRT {
		kv = append(kv, "rtpath", js(rtpath))
	}
	if mir != nil {
		v2, ok2, r2 := mir.doURL(op, true)
		kv = append(kv, "hasMirror", "true", "mok", jbool(ok2), "mval", js(v2), "mres", js(r2))
	} else {
		kv = append(kv, "hasMirror", "false")
	}
	line := obj(kv...)
	if !rn.nodedup {
		if rn.seen["U"+key+line] {
			return
		}
		rn.seen["U"+key+line] = true
	}
	rn.emit(line)
}

func newRinst(cfg *Cfg) (*rinst, string) {
	in := &rinst{e: &env{}, cfg: cfg, shadow: map[string]map[string]string{}, hcount: map[string]int{}, objs: map[string]facade{}}
	res, _ := guard(func() { in.r = in.e.newRouter(cfg) })
	return in, res
}

func (rn *runner) reqEvent(in *rinst, op *Op) {
	o := in.e.serve(in.r, mkRequest(op.Method, op.Path, op.Host, op.Hdr))
	rn.stats.exec++
	hv := func(k string) string {
		v := o.w.sent.Values(k)
		if v == nil {
			v = []string{}
		}
		return jarr(v)
	}
	rn.emit(obj("ev", js("req"), "method", js(op.Method), "path", js(op.Path), "hdr", jmap(op.Hdr), "r", replyJSON(o),
		"resp", obj("acao", hv("Access-Control-Allow-Origin"), "acac", hv("Access-Control-Allow-Credentials"),
			"aceh", hv("Access-Control-Expose-Headers"), "acam", hv("Access-Control-Allow-Methods"),
			"acah", hv("Access-Control-Allow-Headers"), "acma", hv("Access-Control-Max-Age"), "vary", hv("Vary"))))
}

func (rn *runner) miscEvent(in *rinst, op *Op) {
	var ms, anyms []string
	name, ppat, rpat := "", "", ""
	sameP, sameR := true, true
	res, _ := guard(func() {
		a := mux.Methods()
		if len(a) > 0 {
			a[0] = "CLOBBERED" // the returned slice is a copy: writing to it must not reach the library
		}
		b := mux.AnyMethods()
		if len(b) > 0 {
			b[0] = "CLOBBERED"
		}
		ms, anyms = mux.Methods(), mux.AnyMethods()
		name = in.r.Name()
		if len(op.Chain) > 0 {
			f := in.facade(op)
			if f.res != nil {
				rpat, sameR = f.res.Pattern(), f.res.Router() == in.r
			} else if f.p != nil {
				ppat, sameP = f.p.Pattern(), f.p.Router() == in.r
			}
		}
	})
	rn.emit(obj("ev", js("misc"), "res", js(res), "methods", jarr(ms), "any", jarr(anyms), "name", js(name), "chain", chainJSON(op.Chain), "isres", jbool(op.Res),
		"ppat", js(ppat), "rpat", js(rpat), "sameRouter", jbool(sameP && sameR)))
}

func isRemoval(op *Op) bool { return op.Op == "remove" || op.Op == "clean" }

func (rn *runner) runRouterCase(c *Case) {
	if c.Pool != nil {
		rn.pool = c.Pool
	}
	if rn.pool == nil {
		rn.pool = &Pool{}
	}
	cfgLogged := cfgJSON(&c.Cfg) // what was CONFIGURED is logged before the library gets its hands on the slices
	in, res := newRinst(&c.Cfg)
	var mir *rinst
	if c.Mirror {
		mir, _ = newRinst(&c.Cfg)
	}
	rn.emit(obj("ev", js("reset"), "fam", js("router"), "cfg", cfgLogged, "res", js(res), "mirror", jbool(c.Mirror), "id", js(c.ID)))
	if res != "ok" {
		return
	}
	rn.stats.cases++
	defer func() {
		for i := range c.Reqs {
			rn.reqEvent(in, &c.Reqs[i])
		}
	}()
	for i := range c.Ops {
		op := &c.Ops[i]
		last := i == len(c.Ops)-1
		if c.Battery == "last" && last && (isRemoval(op) || (c.Base && op.Op == "handle")) {
			rn.battery(in, mir, true, false) // baseline for the frame condition
		}
		rn.stats.ops++
		w0 := len(in.e.wraps)
		lastRes := "ok"
		switch op.Op {
		case "misc": // accessors outside the listed properties: Methods()/AnyMethods() copies, Name(), facade Pattern()/Router()
			rn.miscEvent(in, op)
		case "facade": // create a long-lived Prefix / Resource object; later calls name it by fid
			fid := op.Fid
			op.Fid = ""
			res, _ := guard(func() { in.objs[fid] = in.facade(op) })
			op.Fid = fid
			rn.emit(obj("ev", js("facade"), "fid", js(fid), "chain", chainJSON(op.Chain), "isres", jbool(op.Res), "res", js(res), "clobber", jbool(in.e.clobbered())))
		case "handle":
			pat, _ := desugar(op)
			h := in.hid(pat, op.Methods)
			var syn string
			sres, _ := guard(func() {
				if mux.CheckSyntax(pat) == nil {
					syn = "ok"
				} else {
					syn = "err"
				}
			})
			if sres != "ok" {
				syn = sres
			}
			res, msg := in.doHandle(op, h, false)
			lastRes = res
			kv := []string{"ev", js("handle"), "pat", js(op.Pat), "methods", jarr(op.Methods), "mws", jarr(op.Mws), "chain", chainJSON(op.Chain),
				"isres", jbool(op.Res), "h", js(h), "res", js(res), "msg", js(msg), "syn", js(syn), "re", reTable(pat),
				"wraps", wrapsJSON(in.e.wraps[w0:]), "fid", js(op.Fid), "clobber", jbool(in.e.clobbered())}
			if res == "ok" {
				in.shadowHandle(pat, op.Methods, h)
			}
			if mir != nil {
				mir.hid(pat, op.Methods)
				r2, _ := mir.doHandle(op, h, true)
				kv = append(kv, "mres", js(r2))
				if r2 == "ok" {
					mir.shadowHandle(pat, op.Methods, h)
				}
			}
			rn.emit(obj(kv...))
		case "remove":
			pat, _ := desugar(op)
			res, _ := in.doRemove(op, false)
			in.shadowRemove(pat, op.Methods)
			kv := []string{"ev", js("remove"), "pat", js(op.Pat), "methods", jarr(op.Methods), "chain", chainJSON(op.Chain), "isres", jbool(op.Res), "res", js(res)}
			if mir != nil {
				r2, _ := mir.doRemove(op, true)
				mir.shadowRemove(pat, op.Methods)
				kv = append(kv, "mres", js(r2))
			}
			rn.emit(obj(kv...))
		case "clean":
			pat, _ := desugar(op)
			res, _ := in.doClean(op, false)
			if op.Res {
				in.shadowRemove(pat, nil)
			} else {
				in.shadowClean(pat)
			}
			kv := []string{"ev", js("clean"), "chain", chainJSON(op.Chain), "isres", jbool(op.Res), "res", js(res)}
			if mir != nil {
				r2, _ := mir.doClean(op, true)
				if op.Res {
					mir.shadowRemove(pat, nil)
				} else {
					mir.shadowClean(pat)
				}
				kv = append(kv, "mres", js(r2))
			}
			rn.emit(obj(kv...))
		case "use":
			res, _ := guard(func() { in.r.Use(in.e.mws(op.Mws)...) })
			in.nuse += len(op.Mws)
			kv := []string{"ev", js("use"), "mws", jarr(op.Mws), "res", js(res), "wraps", wrapsJSON(in.e.wraps[w0:]), "clobber", jbool(in.e.clobbered())}
			if mir != nil {
				r2, _ := guard(func() { mir.r.Use(mir.e.mws(op.Mws)...) })
				mir.nuse += len(op.Mws)
				kv = append(kv, "mres", js(r2))
			}
			rn.emit(obj(kv...))
		case "url":
			rn.urlEvent(in, mir, op, fmt.Sprint("op", i, c.ID), "", false)
		case "syntax":
			var ok bool
			res, _ := guard(func() { ok = mux.CheckSyntax(op.Pat) == nil })
			rn.emit(obj("ev", js("syntax"), "pat", js(op.Pat), "ok", jbool(ok), "res", js(res), "re", reTable(op.Pat)))
		case "req": // a request with headers; the CORS response headers are recorded as sent (C11 / C12)
			rn.reqEvent(in, op)
		case "serve": // an explicit single request (drivers with arbitrary bytes)
			o := in.e.serve(in.r, mkRequest(op.Method, op.Path, op.Host, op.Hdr))
			rn.stats.exec++
			rn.emit(obj("ev", js("serve"), "method", js(op.Method), "path", js(op.Path), "wit", js(""), "wps", "{}",
				"r", replyJSON(o), "hasPrev", "false", "prev", emptyPrev, "hasMirror", "false", "hasLink", "false"))
		default:
			panic("unknown router op " + op.Op)
		}
		if c.Battery == "every" || (c.Battery == "last" && last) {
			rn.battery(in, mir, false, isRemoval(op) || (op.Op == "handle" && lastRes != "ok"))
		}
	}
}
