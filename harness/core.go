package main

import (
	"encoding/json"
	"fmt"
	"net/http"
	"net/url"
	"sort"
	"strings"

	"github.com/issue9/mux/v9"
	"github.com/issue9/mux/v9/types"
)

// ---------------------------------------------------------------- case input

// SMap decodes a JSON object of strings; TLC prints an empty function as [].
type SMap map[string]string

func (m *SMap) UnmarshalJSON(b []byte) error {
	s := strings.TrimSpace(string(b))
	if s == "[]" || s == "null" {
		*m = SMap{}
		return nil
	}
	x := map[string]string{}
	if err := json.Unmarshal(b, &x); err != nil {
		return err
	}
	*m = x
	return nil
}

type ChainEl struct {
	P   string   `json:"p"`
	Mws []string `json:"mws"`
}

type Step struct { // handler program step (C08)
	K string `json:"k"` // set | wh | w
	A string `json:"a"` // header key
	B string `json:"b"` // header value
	N int    `json:"n"` // status or byte count
}

type Cors struct {
	Origins []string `json:"origins"`
	Allow   []string `json:"allow"`
	Expose  []string `json:"expose"`
	MaxAge  int      `json:"maxage"`
	Cred    bool     `json:"cred"`
	On      bool     `json:"on"`
}

type Cfg struct {
	Name     string `json:"name"`
	Trace    bool   `json:"trace"`
	Lock     bool   `json:"lock"`
	Icpt     SMap   `json:"icpt"`
	Domain   string `json:"domain"`
	Cors     Cors   `json:"cors"`
	CorsPre  *Cors  `json:"corspre"` // an EARLIER WithCORS option in the same option list: the later one (Cors) must win
	Recovery bool   `json:"recovery"`
}

type Probe struct {
	Path string `json:"path"`
	Wit  string `json:"wit"` // pattern this path is a simple-valued witness of, or ""
	Wps  SMap   `json:"wps"`
}

type Pool struct {
	Probes  []Probe  `json:"probes"`
	Methods []string `json:"methods"`
	URLs    []Op     `json:"urls"` // URL calls made after the request probes (C10)
	RT      bool     `json:"rt"`   // round trip: build the URL of every dispatched route from its captured parameters
	Link    bool     `json:"link"` // C08: record OPTIONS / HEAD / GET answers of the same path next to every served route
	Dump    bool     `json:"dump"` // record the shape of the real tree after the battery (structural refinement, drift report)
	TH      []Op     `json:"th"`   // requests handed to the bundled Trace helper (C18)
	Reqs    []Op     `json:"reqs"` // group family: the request product every following case is probed with
}

type Op struct {
	Op       string          `json:"op"`
	Inst     string          `json:"inst"`
	Pat      string          `json:"pat"`
	Methods  []string        `json:"methods"`
	Mws      []string        `json:"mws"`
	Prefix   string          `json:"prefix"`
	Strict   bool            `json:"strict"`
	Params   SMap            `json:"params"`
	Chain    []ChainEl       `json:"chain"`
	Key2     string          `json:"key2"`
	Verb     string          `json:"verb"`   // handle op: call the shorthand method (get|post|delete|put|patch|any) instead of Handle
	Parent   string          `json:"parent"` // facade op: make the object from this stored object (last chain element only)
	Fid      string          `json:"fid"`    // facade object (created by an earlier "facade" op) this call goes through
	Res      bool            `json:"res"`    // last chain element is a Resource
	Prog     []Step          `json:"prog"`
	Method   string          `json:"method"`
	Path     string          `json:"path"`
	Host     string          `json:"host"`
	Hdr      SMap            `json:"hdr"`
	Fault    string          `json:"fault"`
	Faults   SMap            `json:"faults"`
	Val      string          `json:"val"`
	Cfg      *Cfg            `json:"cfg"`
	M        json.RawMessage `json:"m"` // matcher expression
	Body     string          `json:"body"`
	Flag     bool            `json:"flag"`
	Key      string          `json:"key"`
	Domains  []string        `json:"domains"`
	Versions []string        `json:"versions"`
	Progs    [][]Op          `json:"progs"`
	N        int             `json:"n"`
}

type Case struct {
	Fam     string   `json:"fam"`
	Cfg     Cfg      `json:"cfg"`
	Ops     []Op     `json:"ops"`
	Progs   [][]Op   `json:"progs"`   // conc family: one op list per goroutine
	N       int      `json:"n"`       // conc family: logged iterations
	Stress  int      `json:"stress"`  // conc family: unlogged iterations
	Procs   int      `json:"procs"`   // conc family: GOMAXPROCS of the child
	Keys    []string `json:"keys"`    // params family: keys observed after every op
	Reqs    []Op     `json:"reqs"`    // requests executed after the ops (TLC prints them as a set)
	Battery string   `json:"battery"` // last | every | none
	Base    bool     `json:"base"`    // battery "last": also take a silent baseline before a final Handle (C17)
	Mirror  bool     `json:"mirror"`  // C19: run the desugared program on a second instance
	Pool    *Pool    `json:"pool"`    // a line holding only "pool" sets the pool for the following cases
	ID      string   `json:"id"`
}

// ---------------------------------------------------------------- handlers

// H is the user handler type T of mux.Router[T].  Middlewares wrap it in
// further H values, so "running" the onion is walking the chain in call().
type H struct {
	kind string // route | 404 | 405 | opt | trace | gnf
	id   string
	node types.Node // captured by the 405 / OPTIONS builders, read at request time
	tag  string     // middleware wrapper when non-empty
	next *H
	prog []Step
}

type obs struct {
	kind, h, pat, rname string
	hasNode             bool
	params              map[string]string
	allowH, allowN      []string
	hasAllowH           bool
	order               []string
	panicKind, panicVal string
	urlPath             string
	ctxID               string
	recovered           []string
	w                   *recW
	hook                func(ev, ctx string)
	faults              map[string]string // per-request fault plan (concurrent runs)
}

func newObs() *obs {
	return &obs{params: map[string]string{}, allowH: []string{}, allowN: []string{}, order: []string{}, panicKind: "none", recovered: []string{}}
}

// recW records a response with the documented net/http commit semantics:
// the header map is snapshotted at the first WriteHeader / Write, later
// mutations and later WriteHeader calls do not reach the client.
type recW struct {
	o      *obs // the observation this writer belongs to (concurrent runs)
	hdr    http.Header
	sent   http.Header
	status int
	wrote  bool
	body   int
	keep   bool
	buf    []byte
}

func newRecW() *recW                { return &recW{hdr: http.Header{}} }
func (w *recW) Header() http.Header { return w.hdr }
func (w *recW) WriteHeader(c int) {
	if !w.wrote {
		w.wrote, w.status, w.sent = true, c, w.hdr.Clone()
	}
}
func (w *recW) Write(b []byte) (int, error) {
	if !w.wrote {
		w.WriteHeader(200)
	}
	w.body += len(b)
	if w.keep {
		w.buf = append(w.buf, b...)
	}
	return len(b), nil
}
func (w *recW) finish() {
	if !w.wrote {
		w.WriteHeader(200)
	}
}

type wrapLog struct{ tag, method, pattern, router string }

// env is what one executed case shares: the current observation and the
// factory-invocation log of the middlewares.
type env struct {
	cur    *obs
	wraps  []wrapLog
	faults map[string]string // fault plan of the request in flight: site -> panic value class
	guards []guardRec
	// nest, when set, is a request the handler itself issues (a sub-request through the same group / router) BEFORE it reads
	// its own parameters: a legal use, and the outer request must be unaffected by it (contexts are per request, also pooled ones)
	nest    func()
	nesting bool
	poison  types.Middleware[*H]
}

func splitList(s string) []string {
	out := []string{}
	for _, x := range strings.Split(s, ",") {
		if x = strings.TrimSpace(x); x != "" {
			out = append(out, x)
		}
	}
	return out
}

type mwT struct {
	e   *env
	tag string
}

func (m *mwT) Middleware(next *H, method, pattern, router string) *H {
	m.e.wraps = append(m.e.wraps, wrapLog{m.tag, method, pattern, router})
	return &H{tag: m.tag, next: next}
}

func (e *env) mw(tag string) types.Middleware[*H] { return &mwT{e, tag} }

type guardRec struct {
	full []types.Middleware[*H]
	n    int
	sent types.Middleware[*H]
}

// mws hands the library a slice WITH SPARE CAPACITY whose hidden tail element is a sentinel: a callee that
// appends in place instead of copying overwrites it, which clobbered() reports (recorded, judged by the spec).
func (e *env) mws(tags []string) []types.Middleware[*H] {
	full := make([]types.Middleware[*H], len(tags)+1)
	for i, t := range tags {
		full[i] = e.mw(t)
	}
	sent := e.mw("zz-sentinel")
	full[len(tags)] = sent
	e.guards = append(e.guards, guardRec{full, len(tags), sent})
	return full[:len(tags)]
}

func (e *env) clobbered() bool {
	bad := false
	for _, g := range e.guards {
		if g.full[g.n] != g.sent {
			bad = true
		}
		// the call has returned: the slice is the caller's again, and the caller reuses it. A callee that kept the slice
		// itself instead of a copy (mux copies: slices.Clone / Concat / append) would run zz-poison on later routes.
		for i := 0; i < g.n; i++ {
			if e.poison == nil {
				e.poison = e.mw("zz-poison")
			}
			g.full[i] = e.poison
		}
	}
	e.guards = e.guards[:0]
	return bad
}

func (e *env) maybePanic(o *obs, site string) {
	f := e.faults
	if o != nil && o.faults != nil {
		f = o.faults
	}
	if f == nil {
		return
	}
	if v, ok := f[site]; ok {
		panic(panicValue(v))
	}
}

type myErr struct{ s string }

func (m *myErr) Error() string { return m.s }

var errSentinel = &myErr{"verif-error"}

func panicValue(class string) any {
	switch class {
	case "error":
		return errSentinel
	case "string":
		return "verif-string"
	case "abort":
		return http.ErrAbortHandler
	case "wrapabort":
		return fmt.Errorf("wrapped: %w", http.ErrAbortHandler)
	case "int":
		return 4242
	case "runtime":
		var m map[string]int
		func() {
			defer func() { recover() }()
		}()
		// a genuine runtime.Error value
		var v any
		func() {
			defer func() { v = recover() }()
			m["x"] = 1
		}()
		return v
	}
	return "verif-other"
}

func describePanic(v any) (kind, val string) {
	if v == nil {
		return "none", ""
	}
	if v == any(errSentinel) {
		return "error", "error"
	}
	if v == any(http.ErrAbortHandler) {
		return "error", "abort"
	}
	if _, ok := v.(interface{ RuntimeError() }); ok {
		if strings.Contains(fmt.Sprint(v), "assignment to entry in nil map") {
			return "runtime", "runtime"
		}
		return "runtime", fmt.Sprint(v)
	}
	switch x := v.(type) {
	case string:
		if x == "verif-string" {
			return "other", "string"
		}
		return "other", x
	case int:
		if x == 4242 {
			return "other", "int"
		}
	case error:
		return "error", x.Error()
	}
	return "other", fmt.Sprint(v)
}

// call is the CallFunc of every router / group built by the harness.
type obsKey struct{}

func (e *env) call(w http.ResponseWriter, r *http.Request, rt types.Route, h *H) {
	o := e.cur
	if v := r.Context().Value(obsKey{}); v != nil { // concurrent requests carry their own observation
		o = v.(*obs)
	}
	o.urlPath = r.URL.Path
	o.rname = rt.RouterName()
	o.ctxID = fmt.Sprintf("%p", rt)
	if o.hook != nil {
		o.hook("enter", o.ctxID)
		defer o.hook("exit", o.ctxID)
	}
	for h.tag != "" { // a nil h faults here exactly as a user CallFunc would
		o.order = append(o.order, h.tag)
		e.maybePanic(o, "mw:"+h.tag)
		h = h.next
	}
	o.kind, o.h = h.kind, h.id
	if o.kind == "gnf" && o.rname != "" { // a router made by Group.New answers 404 with the group's not-found value
		o.kind = "404"
	}
	if e.nest != nil && !e.nesting && o == e.cur && len(e.faults) == 0 && len(o.faults) == 0 {
		e.nesting = true
		e.cur = newObs() // the inner request's observation is thrown away
		func() {
			defer func() { recover() }()
			e.nest()
		}()
		e.cur = o
		e.nesting = false
	}
	rt.Params().Range(func(k, v string) { o.params[k] = v })
	if n := rt.Node(); n != nil {
		o.hasNode = true
		o.pat = n.Pattern()
		o.allowN = append([]string{}, n.Methods()...)
	}
	e.maybePanic(o, "h:"+o.kind)
	switch h.kind {
	case "405", "opt":
		a := h.node.AllowHeader()
		o.hasAllowH = true
		o.allowH = splitList(a)
		w.Header().Set("Allow", a)
		if h.kind == "405" {
			w.WriteHeader(405)
		} else {
			w.WriteHeader(200)
		}
	case "404", "gnf":
		w.WriteHeader(404)
	case "trace":
		mux.Trace(w, r, false)
	case "route":
		runProg(w, h.prog)
		e.maybePanic(o, "late:"+o.kind) // a panic AFTER the handler has written its status line
	}
}

func runProg(w http.ResponseWriter, prog []Step) {
	for _, s := range prog {
		switch s.K {
		case "set":
			w.Header().Set(s.A, s.B)
		case "wh":
			w.WriteHeader(s.N)
		case "w":
			w.Write(make([]byte, s.N))
		case "panic":
			panic("prog")
		}
	}
}

func mkRequest(method, path, host string, hdr map[string]string) *http.Request {
	if host == "" {
		host = "x"
	}
	r := &http.Request{Method: method, URL: &url.URL{Path: path}, Header: http.Header{}, Host: host,
		Proto: "HTTP/1.1", ProtoMajor: 1, ProtoMinor: 1}
	for k, v := range hdr {
		r.Header[http.CanonicalHeaderKey(k)] = []string{v}
	}
	return r
}

// serve runs one request and records what the implementation did.
func (e *env) serve(hd http.Handler, req *http.Request) *obs {
	o := newObs()
	e.cur = o
	o.w = newRecW()
	func() {
		defer func() {
			if v := recover(); v != nil {
				o.panicKind, o.panicVal = describePanic(v)
			}
		}()
		hd.ServeHTTP(o.w, req)
	}()
	o.w.finish()
	return o
}

func (c *Cfg) options(e *env) []mux.Option {
	opts := []mux.Option{}
	ks := make([]string, 0, len(c.Icpt))
	for k := range c.Icpt {
		ks = append(ks, k)
	}
	sort.Strings(ks)
	for _, rule := range ks {
		switch c.Icpt[rule] {
		case "digit":
			opts = append(opts, mux.WithDigitInterceptor(rule))
		case "word":
			opts = append(opts, mux.WithWordInterceptor(rule))
		case "any":
			opts = append(opts, mux.WithAnyInterceptor(rule))
		case "lower":
			opts = append(opts, mux.WithInterceptor(matchLower, rule))
		case "even":
			opts = append(opts, mux.WithInterceptor(func(s string) bool { return len(s) > 0 && len(s)%2 == 0 }, rule))
		}
	}
	if c.Trace {
		opts = append(opts, mux.WithTrace(&H{kind: "trace"}))
	}
	if c.Lock {
		opts = append(opts, mux.WithLock(true))
	}
	if c.Domain != "" {
		opts = append(opts, mux.WithURLDomain(c.Domain))
	}
	if c.CorsPre != nil && c.Cors.On {
		p := c.CorsPre
		opts = append(opts, mux.WithCORS(p.Origins, p.Allow, p.Expose, p.MaxAge, p.Cred))
	}
	if c.Cors.On {
		k := &c.Cors
		switch {
		// growth: the two shorthand options stand for exactly these configurations
		case len(k.Origins) == 1 && k.Origins[0] == "*" && len(k.Allow) == 1 && k.Allow[0] == "*" && len(k.Expose) == 0 && !k.Cred:
			opts = append(opts, mux.WithAllowedCORS(k.MaxAge))
		case len(k.Origins) == 0 && len(k.Allow) == 0 && len(k.Expose) == 0 && k.MaxAge == 0 && !k.Cred:
			opts = append(opts, mux.WithDenyCORS())
		default:
			opts = append(opts, mux.WithCORS(k.Origins, k.Allow, k.Expose, k.MaxAge, k.Cred))
		}
	}
	if c.Recovery {
		opts = append(opts, mux.WithRecovery(func(w http.ResponseWriter, v any) {
			_, val := describePanic(v)
			if rw, ok := w.(*recW); ok && rw.o != nil {
				rw.o.recovered = append(rw.o.recovered, val)
			} else if e.cur != nil {
				e.cur.recovered = append(e.cur.recovered, val)
			}
			w.WriteHeader(500)
		}))
	}
	return opts
}

func matchLower(s string) bool {
	for i := 0; i < len(s); i++ {
		if s[i] < 'a' || s[i] > 'z' {
			return false
		}
	}
	return len(s) > 0
}

func (c *Cfg) name() string {
	if c.Name == "" {
		return "r"
	}
	return c.Name
}

// newRouter may panic (invalid option combination); the caller records that.
func abs(n int) int {
	if n < 0 {
		return -n
	}
	return n
}

// viaGroup: some configurations (chosen by their own shape, so that a replay makes the same choice) are built through
// Group.New on a group that carries DECOY options of the same kind; the router's own options come later in the list and win.
func (c *Cfg) viaGroup() bool {
	return (c.Cors.On && (len(c.Cors.Origins)+len(c.Cors.Allow)+abs(c.Cors.MaxAge))%2 == 1) || (c.Domain != "" && len(c.Domain)%2 == 1)
}

func (e *env) newRouter(c *Cfg) *mux.Router[*H] {
	b405 := func(n types.Node) *H { return &H{kind: "405", node: n} }
	bopt := func(n types.Node) *H { return &H{kind: "opt", node: n} }
	opts := c.options(e)
	var r *mux.Router[*H]
	if c.Cors.On { // the same option values applied to ANOTHER router first ...
		mux.NewRouter[*H](c.name()+"-pre", e.call, &H{kind: "404"}, b405, bopt, opts...)
	}
	if c.viaGroup() {
		decoys := []mux.Option{}
		if c.Domain != "" {
			decoys = append(decoys, mux.WithURLDomain("https://decoy.invalid"))
		}
		if c.Cors.On {
			decoys = append(decoys, mux.WithCORS([]string{"https://decoy.invalid"}, []string{"X-Decoy"}, []string{"X-Decoy"}, 9, false))
		}
		g := mux.NewGroup[*H](e.call, &H{kind: "404"}, b405, bopt, decoys...)
		r = g.New(c.name(), nil, opts...)
	} else {
		r = mux.NewRouter[*H](c.name(), e.call, &H{kind: "404"}, b405, bopt, opts...)
	}
	if c.Cors.On { // ... and to a third one afterwards: the router under test must be unaffected by either
		mux.NewRouter[*H](c.name()+"-twin", e.call, &H{kind: "404"}, b405, bopt, opts...)
	}
	return r
}

func cfgJSON(c *Cfg) string {
	return obj("name", js(c.name()), "trace", jbool(c.Trace), "lock", jbool(c.Lock), "icpt", jmap(c.Icpt),
		"domain", js(c.Domain), "recovery", jbool(c.Recovery),
		"cors", obj("on", jbool(c.Cors.On), "origins", jarr(c.Cors.Origins), "allow", jarr(c.Cors.Allow),
			"expose", jarr(c.Cors.Expose), "maxage", jint(c.Cors.MaxAge), "cred", jbool(c.Cors.Cred)))
}

// guard runs f and classifies a panic: ok | err (error value) | fault (runtime error) | other
func guard(f func()) (res, msg string) {
	res = "ok"
	defer func() {
		if v := recover(); v != nil {
			k, s := describePanic(v)
			msg = s
			switch k {
			case "error":
				res = "err"
			case "runtime":
				res = "fault"
			default:
				res = "other"
			}
		}
	}()
	f()
	return
}
