package main

import (
	"fmt"
	"sort"
	"strings"
)

// ASCII-only JSON writer.  A Go byte b is written as the Latin-1 code point b
// (\u00XX when not printable ASCII), so TLC's Json module reads byte strings
// faithfully whatever the JVM's default charset is.

func js(s string) string {
	var b strings.Builder
	b.Grow(len(s) + 2)
	b.WriteByte('"')
	for i := 0; i < len(s); i++ {
		c := s[i]
		switch {
		case c == '"' || c == '\\':
			b.WriteByte('\\')
			b.WriteByte(c)
		case c < 0x20 || c >= 0x7f:
			fmt.Fprintf(&b, "\\u%04x", c)
		default:
			b.WriteByte(c)
		}
	}
	b.WriteByte('"')
	return b.String()
}

func jarr(xs []string) string {
	ys := make([]string, len(xs))
	for i, x := range xs {
		ys[i] = js(x)
	}
	return "[" + strings.Join(ys, ",") + "]"
}

func jmap(m map[string]string) string {
	ks := make([]string, 0, len(m))
	for k := range m {
		ks = append(ks, k)
	}
	sort.Strings(ks)
	ys := make([]string, len(ks))
	for i, k := range ks {
		ys[i] = js(k) + ":" + js(m[k])
	}
	return "{" + strings.Join(ys, ",") + "}"
}

func jmaparr(m map[string][]string) string {
	ks := make([]string, 0, len(m))
	for k := range m {
		ks = append(ks, k)
	}
	sort.Strings(ks)
	ys := make([]string, len(ks))
	for i, k := range ks {
		ys[i] = js(k) + ":" + jarr(m[k])
	}
	return "{" + strings.Join(ys, ",") + "}"
}

func jbool(b bool) string {
	if b {
		return "true"
	}
	return "false"
}

// obj builds a JSON object from alternating key / raw-JSON-value arguments.
func obj(kv ...string) string {
	var b strings.Builder
	b.WriteByte('{')
	for i := 0; i+1 < len(kv); i += 2 {
		if i > 0 {
			b.WriteByte(',')
		}
		b.WriteString(js(kv[i]))
		b.WriteByte(':')
		b.WriteString(kv[i+1])
	}
	b.WriteByte('}')
	return b.String()
}

func jint(n int) string { return fmt.Sprint(n) }

func jraw(xs []string) string { return "[" + strings.Join(xs, ",") + "]" }
