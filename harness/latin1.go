package main

// Case files carry byte strings Latin-1 coded (byte b = code point b), the same
// convention as the traces, so that arbitrary bytes survive JSON in both directions.

func l1dec(s string) string {
	ascii := true
	for i := 0; i < len(s); i++ {
		if s[i] >= 0x80 {
			ascii = false
			break
		}
	}
	if ascii {
		return s
	}
	b := make([]byte, 0, len(s))
	for _, r := range s {
		if r < 0x100 {
			b = append(b, byte(r))
		} else {
			b = append(b, '?')
		}
	}
	return string(b)
}

func l1enc(s string) string {
	ascii := true
	for i := 0; i < len(s); i++ {
		if s[i] >= 0x80 {
			ascii = false
			break
		}
	}
	if ascii {
		return s
	}
	r := make([]rune, len(s))
	for i := 0; i < len(s); i++ {
		r[i] = rune(s[i])
	}
	return string(r)
}

func l1map(m SMap) {
	for k, v := range m {
		delete(m, k)
		m[l1dec(k)] = l1dec(v)
	}
}

func l1list(xs []string) {
	for i := range xs {
		xs[i] = l1dec(xs[i])
	}
}

func normalizeOp(o *Op) {
	o.Key = l1dec(o.Key)
	o.Pat, o.Path, o.Method, o.Host, o.Prefix, o.Body, o.Val = l1dec(o.Pat), l1dec(o.Path), l1dec(o.Method), l1dec(o.Host), l1dec(o.Prefix), l1dec(o.Body), l1dec(o.Val)
	l1list(o.Methods)
	l1list(o.Domains)
	l1list(o.Versions)
	l1map(o.Params)
	l1map(o.Hdr)
	for i := range o.Chain {
		o.Chain[i].P = l1dec(o.Chain[i].P)
	}
	for i := range o.Progs {
		for j := range o.Progs[i] {
			normalizeOp(&o.Progs[i][j])
		}
	}
}

func normalizeCase(c *Case) {
	for i := range c.Ops {
		normalizeOp(&c.Ops[i])
	}
	for i := range c.Reqs {
		normalizeOp(&c.Reqs[i])
	}
	if c.Pool != nil {
		for i := range c.Pool.Probes {
			p := &c.Pool.Probes[i]
			p.Path, p.Wit = l1dec(p.Path), l1dec(p.Wit)
			l1map(p.Wps)
		}
		l1list(c.Pool.Methods)
		for i := range c.Pool.Reqs {
			normalizeOp(&c.Pool.Reqs[i])
		}
	}
}
