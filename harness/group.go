package main

import (
	"bytes"
	"encoding/json"
	"log"
	"log/slog"
	"mime"
	"net/http"

	"github.com/issue9/mux/v9"
	"github.com/issue9/mux/v9/types"
)

// ---------------------------------------------------------------- group family (C13, C16)

type MatcherX struct {
	T        string     `json:"t"`
	Domains  []string   `json:"domains"`
	Param    string     `json:"param"`
	Key      string     `json:"key"`
	Versions []string   `json:"versions"`
	Ms       []MatcherX `json:"ms"`
}

func buildMatcher(m *MatcherX) mux.Matcher {
	switch m.T {
	case "nil":
		return nil
	case "hosts":
		return mux.NewHosts(false, m.Domains...)
	case "pathver":
		return mux.NewPathVersion(m.Param, append([]string{}, m.Versions...)...)
	case "headerver":
		if m.Key != "" { // a custom key with the default (nil) error log
			return mux.NewHeaderVersion(m.Param, m.Key, nil, m.Versions...)
		}
		return mux.NewHeaderVersion(m.Param, m.Key, func(error) {}, m.Versions...)
	case "and", "or":
		ms := make([]mux.Matcher, len(m.Ms))
		for i := range m.Ms {
			ms[i] = buildMatcher(&m.Ms[i])
			if ms[i] == nil {
				ms[i] = mux.MatcherFunc(func(*http.Request, *types.Context) bool { return true })
			}
		}
		// growth: combinations whose first member is a Hosts matcher are built through the function variants
		if len(m.Ms) > 0 && m.Ms[0].T == "hosts" {
			fs := make([]func(*http.Request, *types.Context) bool, len(ms))
			for i := range ms {
				fs[i] = ms[i].Match
			}
			if m.T == "and" {
				return mux.AndMatcherFunc(fs...)
			}
			return mux.OrMatcherFunc(fs...)
		}
		if m.T == "and" {
			return mux.AndMatcher(ms...)
		}
		return mux.OrMatcher(ms...)
	}
	panic("unknown matcher " + m.T)
}

type ginst struct {
	e       *env
	g       *mux.Group[*H]
	routers map[string]*mux.Router[*H]
}

// recovery option whose function records which one ran: tag "G" (group's) or "R" (router's own)
func (e *env) recOpt(tag string) mux.Option {
	return mux.WithRecovery(func(w http.ResponseWriter, v any) {
		_, val := describePanic(v)
		if e.cur == nil {
			return
		}
		e.cur.recovered = append(e.cur.recovered, tag+":"+val)
		w.WriteHeader(500)
	})
}

func (e *env) routerOpts(c *Cfg) []mux.Option {
	cc := *c
	cc.Recovery = false
	opts := cc.options(e)
	if c.Recovery {
		opts = append(opts, e.recOpt("R"))
	}
	return opts
}

func b405(n types.Node) *H { return &H{kind: "405", node: n} }
func bopt(n types.Node) *H { return &H{kind: "opt", node: n} }

func mimeJSON(accept string) string {
	_, ps, err := mime.ParseMediaType(accept)
	if err != nil || accept == "" {
		return obj("ok", "false", "params", "{}")
	}
	return obj("ok", "true", "params", jmap(ps))
}

func (rn *runner) gserve(gi *ginst, op *Op) {
	var hd http.Handler = gi.g
	if op.Op == "rserve" {
		r := gi.routers[op.Inst]
		if r == nil {
			return
		}
		hd = r
	}
	gi.e.faults = map[string]string(op.Faults)
	req := mkRequest(op.Method, op.Path, op.Host, op.Hdr)
	if len(op.Faults) == 0 { // every plain request is also issued once more from inside its own handler (see env.nest)
		// (a DIFFERENT path: an inner request equal to the outer one would leave a wrongly shared context looking right)
		gi.e.nest = func() { hd.ServeHTTP(newRecW(), mkRequest(op.Method, op.Path+"/zz9", op.Host, op.Hdr)) }
	}
	o := gi.e.serve(hd, req)
	gi.e.nest = nil
	gi.e.faults = nil
	rn.stats.exec++
	rn.emit(obj("ev", js(op.Op), "inst", js(op.Inst), "method", js(op.Method), "path", js(op.Path), "host", js(op.Host),
		"accept", js(op.Hdr["Accept"]), "faults", jmap(op.Faults), "mime", mimeJSON(op.Hdr["Accept"]),
		"r", obj("kind", js(o.kind), "h", js(o.h), "pat", js(o.pat), "hasNode", jbool(o.hasNode), "params", jmap(o.params),
			"order", jarr(o.order), "rname", js(o.rname), "urlPath", js(o.urlPath), "finalPath", js(req.URL.Path),
			"escaped", js(o.panicKind), "escval", js(o.panicVal), "recovered", jarr(o.recovered), "status", jint(o.w.status),
			"allowH", jarr(o.allowH))))
}

func (rn *runner) runGroupCase(c *Case) {
	gi := &ginst{e: &env{}, routers: map[string]*mux.Router[*H]{}}
	gopts := []mux.Option{}
	if c.Cfg.Recovery {
		gopts = append(gopts, gi.e.recOpt("G"))
	}
	res, _ := guard(func() { gi.g = mux.NewGroup[*H](gi.e.call, &H{kind: "gnf"}, b405, bopt, gopts...) })
	rn.emit(obj("ev", js("greset"), "rec", jbool(c.Cfg.Recovery), "res", js(res), "id", js(c.ID)))
	if res != "ok" {
		return
	}
	rn.stats.cases++
	for i := range c.Ops {
		op := &c.Ops[i]
		rn.stats.ops++
		w0 := len(gi.e.wraps)
		var mx MatcherX
		mraw := "{}"
		if len(op.M) > 0 {
			if err := json.Unmarshal(op.M, &mx); err != nil {
				panic(err)
			}
			mraw = string(op.M)
		}
		cfg := op.Cfg
		if cfg == nil {
			cfg = &Cfg{Name: op.Inst}
		}
		switch op.Op {
		case "router":
			cfgLogged := cfgJSON(cfg)
			res, _ := guard(func() {
				gi.routers[op.Inst] = mux.NewRouter[*H](cfg.name(), gi.e.call, &H{kind: "404"}, b405, bopt, gi.e.routerOpts(cfg)...)
			})
			rn.emit(obj("ev", js("router"), "inst", js(op.Inst), "cfg", cfgLogged, "res", js(res)))
		case "gadd":
			res, _ := guard(func() { gi.g.Add(buildMatcher(&mx), gi.routers[op.Inst]) })
			rn.emit(obj("ev", js("gadd"), "inst", js(op.Inst), "m", mraw, "res", js(res), "wraps", wrapsJSON(gi.e.wraps[w0:])))
		case "gnew":
			cfgLogged := cfgJSON(cfg)
			res, _ := guard(func() {
				r := gi.g.New(op.Inst, buildMatcher(&mx), gi.e.routerOpts(cfg)...)
				gi.routers[op.Inst] = r
			})
			rn.emit(obj("ev", js("gnew"), "inst", js(op.Inst), "m", mraw, "cfg", cfgLogged, "res", js(res), "wraps", wrapsJSON(gi.e.wraps[w0:])))
		case "gremove":
			res, _ := guard(func() { gi.g.Remove(op.Inst) })
			rn.emit(obj("ev", js("gremove"), "inst", js(op.Inst), "res", js(res)))
		case "guse":
			res, _ := guard(func() { gi.g.Use(gi.e.mws(op.Mws)...) })
			rn.emit(obj("ev", js("guse"), "mws", jarr(op.Mws), "res", js(res), "wraps", wrapsJSON(gi.e.wraps[w0:])))
		case "handle":
			r := gi.routers[op.Inst]
			h := op.Inst + ":" + op.Pat
			res, _ := guard(func() { r.Handle(op.Pat, &H{kind: "route", id: h}, gi.e.mws(op.Mws), op.Methods...) })
			rn.emit(obj("ev", js("handle"), "inst", js(op.Inst), "pat", js(op.Pat), "methods", jarr(op.Methods), "mws", jarr(op.Mws), "h", js(h), "res", js(res)))
		case "use":
			r := gi.routers[op.Inst]
			res, _ := guard(func() { r.Use(gi.e.mws(op.Mws)...) })
			rn.emit(obj("ev", js("use"), "inst", js(op.Inst), "mws", jarr(op.Mws), "res", js(res)))
		case "gobserve": // Group.Routes(), Group.Routers() (order), Group.Router(name)
			rn.gobserve(gi)
		case "gserve", "rserve":
			rn.gserve(gi, op)
		default:
			panic("unknown group op " + op.Op)
		}
	}
	rn.gobserve(gi)
	reqs := c.Reqs
	if len(reqs) == 0 && rn.pool != nil { // the request product is given once per file (pool line), not per case
		reqs = rn.pool.Reqs
	}
	for i := range reqs {
		if reqs[i].Op == "rechelper" {
			rn.recHelper(&reqs[i])
			continue
		}
		rn.gserve(gi, &reqs[i])
	}
}

// recHelper: the bundled recovery options (status only / io.Writer / log / slog) on a stand-alone router
func (rn *runner) recHelper(op *Op) {
	e := &env{}
	var buf bytes.Buffer
	var opt mux.Option
	switch op.Key {
	case "status":
		opt = mux.WithStatusRecovery(op.N)
	case "write":
		opt = mux.WithWriteRecovery(op.N, &buf)
	case "log":
		opt = mux.WithLogRecovery(op.N, log.New(&buf, "", 0))
	case "slog":
		opt = mux.WithSLogRecovery(op.N, slog.New(slog.NewTextHandler(&buf, nil)))
	}
	r := mux.NewRouter[*H]("rh", e.call, &H{kind: "404"}, b405, bopt, opt)
	r.Get("/x", &H{kind: "route", id: "rh:/x", prog: []Step{{K: "wh", N: 204}}}, e.mw("m"))
	e.faults = map[string]string(op.Faults)
	o := e.serve(r, mkRequest(op.Method, op.Path, "", nil))
	e.faults = nil
	o2 := e.serve(r, mkRequest("GET", "/x", "", nil)) // a later request is served normally
	rn.stats.exec += 2
	rn.emit(obj("ev", js("rechelper"), "kind", js(op.Key), "code", jint(op.N), "method", js(op.Method), "path", js(op.Path), "faults", jmap(op.Faults),
		"status", jint(o.w.status), "stext", js(http.StatusText(op.N)), "escaped", js(o.panicKind), "outlen", jint(buf.Len()),
		"later", obj("kind", js(o2.kind), "status", jint(o2.w.status), "escaped", js(o2.panicKind))))
}

func (rn *runner) gobserve(gi *ginst) {
	var names []string
	routes := map[string]map[string][]string{}
	found := map[string]string{}
	res, _ := guard(func() {
		for _, r := range gi.g.Routers() {
			names = append(names, r.Name())
		}
		routes = gi.g.Routes()
		for _, n := range []string{"r1", "r2", "r3", "r4", "zz"} {
			if r := gi.g.Router(n); r != nil {
				found[n] = r.Name()
			}
		}
	})
	if names == nil {
		names = []string{}
	}
	rs := make([]string, 0, len(routes))
	for _, n := range names {
		if m, ok := routes[n]; ok {
			rs = append(rs, js(n)+":"+jmaparr(m))
		}
	}
	rn.emit(obj("ev", js("gobserve"), "res", js(res), "order", jarr(names), "nroutes", jint(len(routes)), "routes", "{"+joinStr(rs)+"}", "found", jmap(found)))
}

func joinStr(xs []string) string {
	out := ""
	for i, x := range xs {
		if i > 0 {
			out += ","
		}
		out += x
	}
	return out
}
