package main

import (
	"bufio"
	"bytes"
	"context"
	"encoding/json"
	"fmt"
	"io"
	"os"
	"os/exec"
	"runtime"
	"sort"
	"strings"
	"sync"
	"sync/atomic"
	"time"

	"github.com/issue9/mux/v9"
	"github.com/issue9/mux/v9/types"
)

// ---------------------------------------------------------------- conc family (C06, C07)
// A case holds sequential setup ops and one op list per goroutine.  Every case runs in a
// child process (package-level state, runtime fatals and race reports are process-wide):
//   logged iterations : every op is bracketed by call / ret events numbered by one atomic
//                       counter (ret(a) < call(b) implies a really preceded b); validated by Trace_Lin
//   stress iterations : the same program without any logging (no extra synchronisation), only
//                       faults (race report, fatal error, panic, hang) are observed.

type cinst struct {
	r  *mux.Router[*H]
	hs *mux.Hosts
	g  *mux.Group[*H]
}

type cev struct {
	seq  int64
	line string
}

type crun struct {
	c     *Case
	e     *env
	insts map[string]*cinst
	mu    sync.Mutex // guards insts for goroutine-created instances (harness state, not the router's)
	ctr   int64
	log   bool
}

func (cr *crun) inst(name string) *cinst {
	cr.mu.Lock()
	defer cr.mu.Unlock()
	return cr.insts[name]
}

func (cr *crun) newInst(name string, cfg *Cfg) {
	ci := &cinst{}
	if strings.HasPrefix(name, "h") {
		ci.hs = mux.NewHosts(cfg.Lock)
		// every Hosts instance registers an interceptor of its own under the same rule name
		ci.hs.RegisterInterceptor(func(s string) bool { return matchLower(s) }, "hlower")
	} else if strings.HasPrefix(name, "g") {
		// a quiescent group: router ga for host a.com, router gb for /v1/..., everything else is the group's own not-found
		ci.g = mux.NewGroup[*H](cr.e.call, &H{kind: "gnf"}, b405, bopt)
		ga := ci.g.New(name+"a", mux.NewHosts(false, "a.com"))
		gb := ci.g.New(name+"b", mux.NewPathVersion("ver", "v1"))
		for _, r := range []*mux.Router[*H]{ga, gb} {
			r.Get("/x", &H{kind: "route", id: r.Name() + ":/x"})
			r.Get("/{rest}", &H{kind: "route", id: r.Name() + ":/{rest}"})
		}
		// router gc for /v2/...: only /x is registered, every other path is answered 404 AFTER its matcher captured a parameter
		gc := ci.g.New(name+"c", mux.NewPathVersion("ver", "v2"))
		gc.Get("/x", &H{kind: "route", id: gc.Name() + ":/x"})
	} else {
		c := *cfg
		c.Name = name
		ci.r = cr.e.newRouter(&c)
	}
	cr.mu.Lock()
	cr.insts[name] = ci
	cr.mu.Unlock()
}

func opJSON(op *Op) string {
	return obj("op", js(op.Op), "inst", js(op.Inst), "pat", js(op.Pat), "methods", jarr(op.Methods), "h", js(op.Val), "method", js(op.Method),
		"path", js(op.Path), "host", js(op.Host), "strict", jbool(op.Strict), "params", jmap(op.Params), "wit", js(op.Key), "wps", jmap(op.Hdr),
		"prefix", js(op.Prefix), "domains", jarr(op.Domains), "faults", jmap(op.Faults))
}

// exec1 performs one op and returns its result as JSON.
func (cr *crun) exec1(g string, op *Op, evs *[]cev) string {
	ci := cr.inst(op.Inst)
	switch op.Op {
	case "new":
		cfg := op.Cfg
		if cfg == nil {
			cfg = &cr.c.Cfg
		}
		res, _ := guard(func() { cr.newInst(op.Inst, cfg) })
		return obj("res", js(res))
	case "handle":
		res, _ := guard(func() { ci.r.Handle(op.Pat, &H{kind: "route", id: op.Val}, nil, op.Methods...) })
		return obj("res", js(res))
	case "remove":
		res, _ := guard(func() { ci.r.Remove(op.Pat, op.Methods...) })
		return obj("res", js(res))
	case "clean":
		res, _ := guard(func() {
			if op.Prefix == "" {
				ci.r.Clean()
			} else {
				ci.r.Prefix(op.Prefix).Clean()
			}
		})
		return obj("res", js(res))
	case "routes":
		var rs map[string][]string
		res, _ := guard(func() { rs = ci.r.Routes() })
		return obj("res", js(res), "val", jmaparr(rs))
	case "url":
		var val string
		var ok bool
		res, _ := guard(func() {
			v, err := ci.r.URL(op.Strict, op.Pat, op.Params)
			val, ok = v, err == nil
		})
		return obj("res", js(res), "ok", jbool(ok), "val", js(val))
	case "serve":
		o := newObs()
		o.w = newRecW()
		o.w.o = o
		if len(op.Faults) > 0 {
			o.faults = map[string]string(op.Faults)
		}
		if cr.log && evs != nil {
			o.hook = func(ev, ctx string) {
				s := atomic.AddInt64(&cr.ctr, 1)
				*evs = append(*evs, cev{s, obj("ev", js(ev), "g", js(g), "seq", jint(int(s)), "ctx", js(ctx))})
			}
		}
		req := mkRequest(op.Method, op.Path, "", map[string]string(op.Params)) // request headers of a serve op travel in params
		req = req.WithContext(context.WithValue(context.Background(), obsKey{}, o))
		func() {
			defer func() {
				if v := recover(); v != nil {
					o.panicKind, o.panicVal = describePanic(v)
				}
			}()
			ci.r.ServeHTTP(o.w, req)
		}()
		o.w.finish()
		return obj("res", js("ok"), "r", replyJSON(o))
	case "gserve":
		o := newObs()
		o.w = newRecW()
		o.w.o = o
		if cr.log && evs != nil {
			o.hook = func(ev, ctx string) {
				s := atomic.AddInt64(&cr.ctr, 1)
				*evs = append(*evs, cev{s, obj("ev", js(ev), "g", js(g), "seq", jint(int(s)), "ctx", js(ctx))})
			}
		}
		req := mkRequest(op.Method, op.Path, op.Host, nil)
		req = req.WithContext(context.WithValue(context.Background(), obsKey{}, o))
		func() {
			defer func() {
				if v := recover(); v != nil {
					o.panicKind, o.panicVal = describePanic(v)
				}
			}()
			ci.g.ServeHTTP(o.w, req)
		}()
		o.w.finish()
		return obj("res", js("ok"), "r", obj("kind", js(o.kind), "h", js(o.h), "pat", js(o.pat), "params", jmap(o.params), "rname", js(o.rname), "panic", js(o.panicKind), "urlPath", js(o.urlPath)))
	case "hadd":
		res, _ := guard(func() { ci.hs.Add(op.Domains...) })
		return obj("res", js(res))
	case "hdelete":
		res, _ := guard(func() { ci.hs.Delete(op.Pat) })
		return obj("res", js(res))
	case "hmatch":
		ctx := types.NewContext()
		var ok bool
		res, _ := guard(func() { ok = ci.hs.Match(mkRequest("GET", "/", op.Host, nil), ctx) })
		ps := ctxParams(ctx)
		ctx.Destroy()
		return obj("res", js(res), "ok", jbool(ok), "params", jmap(ps))
	}
	panic("unknown conc op " + op.Op)
}

func (cr *crun) iteration(out *bufio.Writer, logged bool) {
	cr.log = logged
	cr.e = &env{}
	cr.insts = map[string]*cinst{}
	cr.ctr = 0
	var main []cev
	step := func(g string, op *Op, evs *[]cev) {
		defer atomic.AddInt64(&progress, 1)
		if !logged {
			cr.exec1(g, op, nil)
			return
		}
		s1 := atomic.AddInt64(&cr.ctr, 1)
		*evs = append(*evs, cev{s1, obj("ev", js("call"), "g", js(g), "seq", jint(int(s1)), "o", opJSON(op))})
		r := cr.exec1(g, op, evs)
		s2 := atomic.AddInt64(&cr.ctr, 1)
		*evs = append(*evs, cev{s2, obj("ev", js("ret"), "g", js(g), "seq", jint(int(s2)), "o", opJSON(op), "r", r)})
	}
	for i := range cr.c.Ops {
		step("main", &cr.c.Ops[i], &main)
	}
	all := make([][]cev, len(cr.c.Progs))
	var wg sync.WaitGroup
	start := make(chan struct{})
	for gi := range cr.c.Progs {
		wg.Add(1)
		go func(gi int) {
			defer wg.Done()
			<-start
			g := fmt.Sprintf("g%d", gi+1)
			for i := range cr.c.Progs[gi] {
				step(g, &cr.c.Progs[gi][i], &all[gi])
			}
		}(gi)
	}
	close(start)
	wg.Wait()
	if !logged {
		return
	}
	evs := main
	for _, a := range all {
		evs = append(evs, a...)
	}
	sort.Slice(evs, func(i, j int) bool { return evs[i].seq < evs[j].seq })
	fmt.Fprintln(out, obj("ev", js("reset"), "fam", js("conc"), "cfg", cfgJSON(&cr.c.Cfg), "id", js(cr.c.ID)))
	for _, e := range evs {
		fmt.Fprintln(out, e.line)
	}
	out.Flush()
}

// progress counts completed operations of the child; its watchdog calls the run hung only when
// NO operation has completed for 45 s (a slow, loaded machine still makes progress; a deadlock does not).
var progress int64

func hangWatchdog() {
	last, since := int64(-1), time.Now()
	for {
		time.Sleep(2 * time.Second)
		p := atomic.LoadInt64(&progress)
		if p != last {
			last, since = p, time.Now()
			continue
		}
		if time.Since(since) > 45*time.Second {
			buf := make([]byte, 1<<16)
			buf = buf[:runtime.Stack(buf, true)]
			if len(buf) > 1200 {
				buf = buf[:1200]
			}
			fmt.Fprintf(os.Stderr, "HANG: no operation completed for 45s\n%s\n", buf)
			os.Exit(67)
		}
	}
}

// cmdConc1 is the child: one case from stdin, events to stdout.
func cmdConc1() {
	go hangWatchdog()
	b, _ := io.ReadAll(os.Stdin)
	var c Case
	if err := json.Unmarshal(b, &c); err != nil {
		fmt.Fprintln(os.Stderr, "conc1:", err)
		os.Exit(3)
	}
	normalizeCase(&c)
	for i := range c.Progs {
		for j := range c.Progs[i] {
			normalizeOp(&c.Progs[i][j])
		}
	}
	if c.Procs > 0 {
		runtime.GOMAXPROCS(c.Procs)
	}
	out := bufio.NewWriter(os.Stdout)
	cr := &crun{c: &c}
	for i := 0; i < c.N; i++ {
		cr.iteration(out, true)
	}
	for i := 0; i < c.Stress; i++ {
		cr.iteration(out, false)
	}
	out.Flush()
}

// parent side: run the case in a child process and turn an abnormal end into a fault event.
func (rn *runner) runConcCase(c *Case, raw []byte) {
	rn.stats.cases++
	cmd := exec.Command(os.Args[0], "conc1")
	cmd.Stdin = bytes.NewReader(raw)
	cmd.Env = append(os.Environ(), "GORACE=halt_on_error=1 exitcode=66")
	var stdout, stderr bytes.Buffer
	cmd.Stdout, cmd.Stderr = &stdout, &stderr
	done := make(chan error, 1)
	if err := cmd.Start(); err != nil {
		fmt.Fprintln(os.Stderr, "cannot start child:", err)
		os.Exit(2)
	}
	go func() { done <- cmd.Wait() }()
	kind := ""
	select {
	case err := <-done:
		if err != nil {
			es := stderr.String()
			switch {
			case strings.Contains(es, "HANG: no operation completed"):
				kind = "hang"
			case strings.Contains(es, "DATA RACE"):
				kind = "race"
			case strings.Contains(es, "fatal error:"):
				kind = "fatal"
			case strings.Contains(es, "panic:"):
				kind = "panic"
			default:
				kind = "exit"
			}
		}
	case <-time.After(20 * time.Minute):
		// the child still completes operations (its own watchdog did not fire) but is far too slow: not a verdict
		cmd.Process.Kill()
		<-done // the copier goroutines must be finished before the buffers are read
		fmt.Fprintln(os.Stderr, "conc: child exceeded 20 minutes while making progress (overloaded machine?)")
		os.Exit(2)
	}
	n := 0
	for _, line := range strings.Split(stdout.String(), "\n") {
		if strings.HasPrefix(line, "{") {
			rn.emit(line)
			n++
		}
	}
	rn.stats.exec += n
	if kind != "" {
		detail := stderr.String()
		if len(detail) > 1500 {
			detail = detail[:1500]
		}
		rn.emit(obj("ev", js("reset"), "fam", js("conc"), "cfg", cfgJSON(&c.Cfg), "id", js(c.ID)))
		rn.emit(obj("ev", js("fault"), "kind", js(kind), "detail", js(detail)))
	}
}
