//go:build verif

package main

import (
	"encoding/json"
	"sync"

	"github.com/issue9/mux/v9"
)

// ---------------------------------------------------------------- lockdisc family (C06, binding 2)
// A router-family case is executed single-threaded on a WithLock(true) router built with -tags verif.
// Every access hook reports its site, read/write, and the lock mode actually held, which a single
// goroutine can determine exactly with TryLock / TryRLock: none / R / W.

// dumpTree renders the real tree's shape (segment text, registered methods, ordered children) for the drift report.
func dumpTree(r *mux.Router[*H]) string {
	b, err := json.Marshal(mux.VerifDump(r))
	if err != nil {
		return ""
	}
	return string(b)
}

func lockMode(l *sync.RWMutex) string {
	if l == nil {
		return "nolock"
	}
	if l.TryLock() {
		l.Unlock()
		return "none"
	}
	if l.TryRLock() {
		l.RUnlock()
		return "R"
	}
	return "W"
}

func (rn *runner) runLockCase(c *Case) {
	if c.Pool != nil {
		rn.pool = c.Pool
	}
	cfg := c.Cfg
	cfg.Lock = true
	in, res := newRinst(&cfg)
	rn.emit(obj("ev", js("xreset"), "fam", js("lockdisc"), "cfg", cfgJSON(&cfg), "res", js(res), "id", js(c.ID)))
	if res != "ok" {
		return
	}
	rn.stats.cases++
	var acc []string
	mux.SetVerifHook(func(l *sync.RWMutex, site string, write bool) {
		acc = append(acc, obj("site", js(site), "write", jbool(write), "mode", js(lockMode(l))))
	})
	defer mux.SetVerifHook(nil)
	record := func(kind, detail, res string) {
		rn.emit(obj("ev", js("lockop"), "op", js(kind), "detail", js(detail), "res", js(res), "acc", jraw(acc)))
		acc = nil
	}
	for i := range c.Ops {
		op := &c.Ops[i]
		rn.stats.ops++
		acc = nil
		switch op.Op {
		case "handle":
			pat, _ := desugar(op)
			res, _ := in.doHandle(op, in.hid(pat, op.Methods), false)
			record("handle", pat, res)
		case "remove":
			pat, _ := desugar(op)
			res, _ := in.doRemove(op, false)
			record("remove", pat, res)
		case "clean":
			res, _ := in.doClean(op, false)
			record("clean", "", res)
		case "use":
			res, _ := guard(func() { in.r.Use(in.e.mws(op.Mws)...) })
			record("use", "", res)
		default:
			continue
		}
		// observers after every mutating call
		guard(func() { in.r.Routes() })
		record("routes", "", "ok")
		for _, p := range rn.pool.Probes {
			for _, m := range rn.pool.Methods {
				o := in.e.serve(in.r, mkRequest(m, p.Path, "", nil))
				rn.stats.exec++
				record("serve", m+" "+p.Path+" -> "+o.kind, "ok")
			}
			if p.Wit != "" {
				guard(func() { in.r.URL(true, p.Wit, map[string]string(p.Wps)) })
				record("url", p.Wit, "ok")
			}
		}
	}
}
