#!/usr/bin/env python3
"""verifctl - orchestrator of the TLA+ model-based verification of issue9/mux.

  verifctl check <Cxx> [--tier quick|thorough]   env: VERIF_SEED, VERIF_TIER
  verifctl replay <file>
  verifctl selftest
  verifctl setup

Exit codes: 0 property held on everything explored; 1 + "VIOLATION property=<id> replay=<path>"
a disagreement between the real code and the specification that a re-execution of the replay
file reproduced; 2 infrastructure problem (never a verdict).
"""
import threading
import sys, os, json, subprocess, tempfile, shutil, time, hashlib, re, glob, concurrent.futures as cf

ROOT = os.path.dirname(os.path.dirname(os.path.abspath(__file__)))
SPEC = os.path.join(ROOT, 'spec')
HARNESS = os.path.join(ROOT, 'harness')
REPO = os.environ.get('VERIF_REPO', '/repo')
JAR = '/opt/veriftools/tla/tla2tools.jar:/opt/veriftools/tla/CommunityModules-deps.jar'
NCPU = min(16, os.cpu_count() or 4)

GOENV = dict(os.environ, GOFLAGS='-mod=mod', GOPROXY='off', GOSUMDB='off', GOTOOLCHAIN='local')


class Infra(Exception):
    pass


T0 = time.time()


def log(*a):
    print('[%5.1fs]' % (time.time() - T0), *a, file=sys.stderr, flush=True)


# ------------------------------------------------------------------ run directory
class Run:
    def __init__(self, prop, tier, seed):
        self.prop, self.tier, self.seed = prop, tier, seed
        self.dir = tempfile.mkdtemp(prefix='verif-%s-' % prop)
        self.t0 = time.time()
        self.states = 0
        self.transitions = 0
        self.tlc_cmds = []
        self.cases = 0
        self.exec = 0
        self.events = 0
        self.validated_traces = 0
        self.samples = []
        self.distinct = set()
        self.mismatches = []   # (stage, shard dir, mismatch dict)
        self.notes = []
        self.tree_drift = 0
        self.tree_dumps = 0
        self.exhaustive_parts = []
        self.bins = {}

    def sub(self, name):
        d = os.path.join(self.dir, name)
        os.makedirs(d, exist_ok=True)
        return d

    def cleanup(self):
        shutil.rmtree(self.dir, ignore_errors=True)


# ------------------------------------------------------------------ building the harness from /repo's working tree
def build_harness(run, race=False, tags='verif'):
    key = ('race' if race else 'plain')
    if key in run.bins:
        return run.bins[key]
    out = os.path.join(run.dir, 'muxdrive-' + key)
    # the harness module pins mux to REPO through a replace directive; go.sum must match the repo's
    modsrc = open(os.path.join(HARNESS, 'go.mod')).read()
    work = run.sub('hsrc-' + key)
    for f in glob.glob(os.path.join(HARNESS, '*.go')):
        shutil.copy(f, work)
    open(os.path.join(work, 'go.mod'), 'w').write(modsrc.replace('=> /repo', '=> ' + REPO))
    shutil.copy(os.path.join(REPO, 'go.sum'), os.path.join(work, 'go.sum'))
    cmd = ['go', 'build', '-tags', tags]
    if race:
        cmd.append('-race')
    cmd += ['-o', out, '.']
    p = subprocess.run(cmd, cwd=work, env=GOENV, capture_output=True, text=True)
    if p.returncode != 0:
        raise Infra('harness build failed (does /repo still compile?):\n' + p.stdout + p.stderr)
    run.bins[key] = out
    return out


# ------------------------------------------------------------------ TLC
def tlc(run, workdir, module, cfg, workers=1, xmx='3g', extra=(), timeout=1800, simulate=None, depth=None, seed=None, deque=False):
    """Run TLC in workdir (spec files are copied there).  Returns stdout text."""
    for f in glob.glob(os.path.join(SPEC, '*.tla')):
        dst = os.path.join(workdir, os.path.basename(f))
        if not os.path.exists(dst):
            shutil.copy(f, dst)
    md = tempfile.mkdtemp(prefix='md-', dir=workdir)
    if workers == 1 and not simulate:   # short single-threaded runs (trace validation): C1 JIT only, serial GC
        cmd = ['java', '-XX:+UseSerialGC', '-XX:TieredStopAtLevel=1', '-Xmx' + xmx, '-Xss256m']
    else:
        cmd = ['java', '-XX:+UseParallelGC', '-XX:ParallelGCThreads=%d' % max(2, min(8, workers)), '-Xmx' + xmx, '-Xss256m']
    if deque:
        cmd.append('-Dtlc2.tool.queue.IStateQueue=StateDeque')
    # TLC unpacks its standard modules into java.io.tmpdir (one directory per run, never removed): keep that inside the run's scratch area
    cmd += ['-Djava.io.tmpdir=' + md, '-cp', JAR, 'tlc2.TLC', '-workers', str(workers), '-metadir', md, '-config', cfg]
    if simulate:
        cmd += ['-simulate', 'num=%d' % simulate, '-depth', str(depth), '-seed', str(seed)]
    cmd += list(extra) + [module]
    run.tlc_cmds.append(' '.join(cmd[cmd.index('tlc2.TLC'):]))
    try:
        p = subprocess.run(cmd, cwd=workdir, capture_output=True, text=True, timeout=timeout)
    except subprocess.TimeoutExpired:
        raise Infra('TLC timeout: ' + ' '.join(cmd))
    finally:
        shutil.rmtree(md, ignore_errors=True)
    out = p.stdout
    if 'java.lang.OutOfMemoryError' in out or 'StackOverflowError' in out + p.stderr:
        raise Infra('TLC resource exhaustion in %s:\n%s' % (workdir, out[-2000:]))
    return out, p.returncode


def tlc_counts(out):
    m = re.search(r'(\d[\d,]*) states generated, (\d[\d,]*) distinct states found', out)
    if not m:
        return 0, 0
    return int(m.group(2).replace(',', '')), int(m.group(1).replace(',', ''))


def write_cfg(path, spec='Spec', consts=None, subst=None, invariants=(), properties=(), view=None, extra=''):
    lines = ['SPECIFICATION ' + spec]
    if consts or subst:
        lines.append('CONSTANTS')
        for k, v in (consts or {}).items():
            lines.append('  %s = %s' % (k, v))
        for k, v in (subst or {}).items():
            lines.append('  %s <- %s' % (k, v))
    if view:
        lines.append('VIEW ' + view)
    if invariants:
        lines.append('INVARIANTS ' + ' '.join(invariants))
    if properties:
        lines.append('PROPERTIES ' + ' '.join(properties))
    lines.append('CHECK_DEADLOCK FALSE')
    if extra:
        lines.append(extra)
    open(path, 'w').write('\n'.join(lines) + '\n')


def tla_str(s):
    return '"' + s.replace('\\', '\\\\').replace('"', '\\"') + '"'


def tla_set(xs):
    return '{' + ', '.join(tla_str(x) for x in xs) + '}'


# ------------------------------------------------------------------ stages
def stage_mc(run, st):
    """Exhaustive bounded model check of the design-level properties."""
    wd = run.sub('mc-' + st['name'])
    cfgp = os.path.join(wd, 'mc.cfg')
    write_cfg(cfgp, spec=st.get('spec', 'Spec'), consts=st.get('consts'), subst=st.get('subst'), invariants=st.get('invariants', ()),
              properties=st.get('properties', ()), view=st.get('view'))
    out, rc = tlc(run, wd, st['module'] + '.tla', 'mc.cfg', workers=st.get('workers', NCPU), xmx=st.get('xmx', '8g'),
                  timeout=st.get('timeout', 1800), extra=st.get('extra', ()))
    if 'Model checking completed. No error has been found.' not in out:
        raise Infra('model check %s of the SPECIFICATION failed (a specification error, not a verdict about the code):\n%s'
                    % (st['name'], out[-3000:]))
    d, g = tlc_counts(out)
    run.states += d
    run.transitions += g
    run.exhaustive_parts.append({'stage': st['name'], 'module': st['module'], 'distinct_states': d, 'states_generated': g,
                                 'invariants': list(st.get('invariants', ())), 'properties': list(st.get('properties', ()))})
    log('[mc %s] %d distinct / %d generated states' % (st['name'], d, g))


def stage_mc_neg(run, st):
    """Vacuity guard: the named deviation (as-built discipline) MUST violate the invariant, otherwise the property is not exercised by the model."""
    wd = run.sub('mcneg-' + st['name'])
    write_cfg(os.path.join(wd, 'mc.cfg'), spec=st.get('spec', 'Spec'), consts=st.get('consts'), subst=st.get('subst'), invariants=st.get('invariants', ()),
              properties=st.get('properties', ()))
    out, rc = tlc(run, wd, st['module'] + '.tla', 'mc.cfg', workers=st.get('workers', 4), xmx='4g', timeout=600)
    want = 'Invariant %s is violated' % st['expect']
    if st.get('properties'):     # a temporal property: TLC names every violated property in one line
        want = 'Temporal propert'
    if want not in out or (st.get('properties') and st['expect'] not in out):
        raise Infra('the deviation model %s no longer violates %s (vacuous model?):\n%s' % (st['name'], st['expect'], out[-2000:]))
    d, g = tlc_counts(out)
    run.states += d
    run.transitions += g
    log('[mc-neg %s] counterexample for %s found as expected' % (st['name'], st['expect']))


def stage_ind(run, st):
    """Unbounded design-level argument: Apalache discharges an INDUCTIVE invariant of the module (Init => IndInv,
    IndInv /\\ Next => IndInv', IndInv => Safety) for any number of operations; two guards must FAIL (the typed
    invariant has states deep inside critical sections; the as-built deviation is not inductive)."""
    wd = run.sub('ind-' + st['name'])
    for f in glob.glob(os.path.join(SPEC, '*.tla')) + glob.glob(os.path.join(SPEC, 'apalache', '*.tla')):
        shutil.copy(f, os.path.join(wd, os.path.basename(f)))
    def cfg(name, consts):
        p = os.path.join(wd, name + '.cfg')
        open(p, 'w').write('CONSTANTS\n' + ''.join('  %s = %s\n' % kv for kv in consts.items()) + 'INIT IndInit\nNEXT Next\nINVARIANT IndInv\n')
        return name + '.cfg'
    good = cfg('good', st['consts'])
    bad = cfg('bad', st['neg_consts'])
    obl = [('Init => IndInv', good, ['--init=Init', '--inv=IndInv', '--length=0'], True),
           ('IndInv /\\ Next => IndInv\'', good, ['--init=IndInit', '--inv=IndInv', '--length=1'], True),
           ('IndInv => ' + st['safety'], good, ['--init=IndInit', '--inv=' + st['safety'], '--length=0'], True),
           ('guard: IndInit has deep states', good, ['--init=IndInit', '--inv=Unsat', '--length=0'], False),
           ('guard: the as-built deviation is not inductive', bad, ['--init=IndInit', '--inv=IndInv', '--length=1'], False)]

    def one(o):
        name, c, args, want = o
        od = tempfile.mkdtemp(prefix='apa-', dir=wd)
        cmd = ['apalache-mc', 'check', '--config=' + c, '--out-dir=' + od] + args + [st['module'] + '.tla']
        try:
            p = subprocess.run(cmd, cwd=wd, capture_output=True, text=True, timeout=st.get('timeout', 600), stdin=subprocess.DEVNULL,
                               env=dict(os.environ, TMPDIR=od))      # (the launcher makes its SANY directory under TMPDIR)
        except (subprocess.TimeoutExpired, OSError) as ex:
            return name, ' '.join(cmd[:2] + args), None, 'apalache-mc could not be run: %r' % (ex,)
        out = p.stdout + p.stderr
        ok = 'The outcome is: NoError' in out
        err = 'The outcome is: Error' in out and 'invariant' in out and 'violated' in out
        if not (ok or err):
            return name, ' '.join(cmd[:2] + args), None, out[-600:]
        return name, ' '.join(cmd[:2] + args), ok, want

    with cf.ThreadPoolExecutor(max_workers=5) as ex:
        res = list(ex.map(one, obl))
    broken = [r for r in res if r[2] is None]
    if broken:
        # the tool itself did not run to a verdict (not installed, solver missing ...): the unbounded argument is an ADDITION to the
        # bounded TLC runs of the same module, so its absence is reported, not fatal
        run.notes.append('inductive stage %s skipped: apalache-mc reached no verdict (%s)' % (st['name'], broken[0][3].strip().splitlines()[-1] if broken[0][3].strip() else 'no output'))
        log('[ind %s] SKIPPED: apalache-mc reached no verdict' % st['name'])
        return
    for name, cmd, ok, want in res:
        if ok != want:
            raise Infra('inductive argument %s: obligation "%s" %s (a specification error, not a verdict about the code)'
                        % (st['name'], name, 'failed' if want else 'unexpectedly holds: vacuous guard'))
    run.exhaustive_parts.append({'stage': st['name'], 'module': st['module'], 'inductive_invariant': 'IndInv', 'unbounded_in': st.get('unbounded_in', ''),
                                 'obligations_discharged': [r[0] for r in res if r[3]], 'guards_that_must_fail': [r[0] for r in res if not r[3]],
                                 'checker': 'apalache-mc 0.58 (SMT, z3)', 'cmds': [r[1] for r in res]})
    log('[ind %s] inductive invariant discharged by Apalache (3 obligations hold, 2 guards fail as they must)' % st['name'])


def stage_repotests(run, st):
    """The repository's own test suite as a trace source (CCF style): built with -tags verif, every Add/Remove/Clean/Handler call the
    tests make is recorded through the call-trace hooks and validated by Trace_Tree.tla."""
    wd = run.sub('repotests')
    trace = os.path.join(wd, 'trace-repo.ndjson')
    env = dict(GOENV, VERIF_TRACE=trace)
    p = subprocess.run(['go', 'test', '-tags', 'verif', '-vet=off', '-count=1', '-p', '1', './...'], cwd=REPO, env=env, capture_output=True, text=True, timeout=900)
    if not os.path.exists(trace) or os.path.getsize(trace) == 0:
        raise Infra('the repository tests produced no call trace (do they still build with -tags verif?):\n' + (p.stdout + p.stderr)[-1500:])
    props = st.get('props') or [run.prop]
    mism, n = validate_shard(run, wd, 'Trace_Tree', trace, props)
    run.events += n
    run.validated_traces += 1
    for m in mism:
        run.mismatches.append({'cases': None, 'trace': trace, 'm': m, 'trace_module': 'Trace_Tree', 'props': props, 'repotests': True})
    collect_samples(run, trace)
    log('[repotests] %d recorded calls of the repository\'s own tests validated, %d mismatches so far' % (n, len(run.mismatches)))


def extract_cases(out, path, limit=None, sample=None, seed=0):
    seen = set()
    pool = None
    n = 0
    with open(path, 'w') as f:
        for line in out.splitlines():
            if line.startswith('"POOL '):
                body = json.loads(line).split(' ', 1)[1]
                if pool is None:
                    pool = body
            elif line.startswith('"CASE '):
                body = json.loads(line).split(' ', 1)[1]
                h = hashlib.md5(body.encode()).digest()
                if h in seen:
                    continue
                seen.add(h)
                if limit and n >= limit:
                    continue
                if sample is not None and sample < 1.0:
                    hv = int.from_bytes(hashlib.md5(('%d|' % seed).encode() + h).digest()[:4], 'big') / 2**32
                    if hv >= sample:
                        continue
                f.write(body + '\n')
                n += 1
    return pool, n


def stage_gen(run, st):
    """TLC generates behaviours of the specification (BFS: all histories; or seeded -simulate)."""
    wd = run.sub('gen-' + st['name'])
    cfgp = os.path.join(wd, 'gen.cfg')
    write_cfg(cfgp, consts=st.get('consts'), subst=st.get('subst'), invariants=[st.get('emit', 'Emit')])
    kw = {}
    if st.get('simulate'):
        kw = dict(simulate=st['simulate'], depth=st['depth'], seed=run.seed * 1000 + st.get('seedoff', 0))
    out, rc = tlc(run, wd, st['module'] + '.tla', 'gen.cfg', workers=(1 if st.get('simulate') else st.get('workers', 8)),
                  xmx=st.get('xmx', '6g'), timeout=st.get('timeout', 1800), **kw)
    if not st.get('simulate') and 'Model checking completed. No error has been found.' not in out:
        raise Infra('generation %s failed:\n%s' % (st['name'], out[-3000:]))
    if st.get('simulate') and 'Error:' in out and 'Simulation' not in out:
        raise Infra('simulation %s failed:\n%s' % (st['name'], out[-3000:]))
    cases = os.path.join(wd, 'cases.ndjson')
    pool, n = extract_cases(out, cases, st.get('limit'), st.get('sample'), run.seed)
    d, g = tlc_counts(out)
    run.states += d
    run.transitions += g
    if n == 0:
        raise Infra('generation %s produced no behaviours:\n%s' % (st['name'], out[-2000:]))
    log('[gen %s] %d behaviours (%d states)' % (st['name'], n, d))
    if not st.get('simulate'):
        run.exhaustive_parts.append({'stage': st['name'], 'module': st['module'], 'behaviours': n, 'all_histories_up_to_depth': st.get('consts', {}).get('Depth')})
    return {'cases': cases, 'pool': pool, 'n': n, 'name': st['name']}


def stage_gogen(run, st):
    """Go-side randomized input driver (inputs only, no expectations)."""
    wd = run.sub('gogen-' + st['name'])
    binp = build_harness(run)
    cases = os.path.join(wd, 'cases.ndjson')
    cmd = [binp, 'gen', '-fam', st['fam'], '-mode', st.get('mode', 'mixed'), '-seed', str(run.seed * 1000 + st.get('seedoff', 0)), '-n', str(st['n']), '-out', cases] + list(st.get('args', []))
    p = subprocess.run(cmd, capture_output=True, text=True, timeout=600)
    if p.returncode != 0:
        raise Infra('driver failed: %s\n%s' % (' '.join(cmd), p.stderr[-2000:]))
    n = sum(1 for _ in open(cases))
    log('[gogen %s] %d cases' % (st['name'], n))
    return {'cases': cases, 'pool': None, 'n': n, 'name': st['name']}


def shard_cases(gen, wd, k):
    """Split cases round-robin into k shard files, each starting with the pool line."""
    files = [open(os.path.join(wd, 'cases-%02d.ndjson' % i), 'w') for i in range(k)]
    counts = [0] * k
    for f in files:
        if gen['pool']:
            f.write(gen['pool'] + '\n')
    i = 0
    for line in open(gen['cases']):
        if not line.strip():
            continue
        if '"id"' not in line[:200]:
            line = '{"id":"%s:%d",' % (gen['name'], i) + line.lstrip()[1:]
        j = i % k
        m = re.search(r'"skey":"((?:[^"\\]|\\.)*)"', line)
        if m:
            j = int.from_bytes(hashlib.md5(m.group(1).encode()).digest()[:4], 'big') % k
        files[j].write(line)
        counts[j] += 1
        i += 1
    for f in files:
        f.close()
    return [os.path.join(wd, 'cases-%02d.ndjson' % j) for j in range(k) if counts[j] > 0]


def run_harness(binp, cases, trace, nodedup=False, timeout=1800, env=None):
    cmd = [binp, 'run', '-in', cases, '-out', trace]
    if nodedup:
        cmd.append('-nodedup')
    try:
        p = subprocess.run(cmd, capture_output=True, text=True, timeout=timeout, env=env)
    except subprocess.TimeoutExpired:
        return None, 'timeout', ''
    stats = {}
    m = re.search(r'STATS (\{.*\})', p.stderr)
    if m:
        stats = json.loads(m.group(1))
    return p.returncode, stats, p.stderr


def parse_mismatch(line):
    """A MISMATCH record printed by a trace specification.  Values with raw control / non-ASCII bytes can make TLC's
    output unparsable; then the property id, the line and the diagnostic class are still recovered."""
    try:
        return json.loads(json.loads(line).split(' ', 1)[1])
    except Exception:
        m = re.search(r'\\"id\\":\\"(C\d+)\\",\\"line\\":(\d+)', line)
        k = re.search(r'\\"info\\":\[\\"([^\\"]*)', line)
        if not m:
            raise Infra('unparsable MISMATCH line: ' + line[:500])
        return {'id': m.group(1), 'line': int(m.group(2)), 'info': [k.group(1) if k else '?', 'details not printable']}


def validate_lin(run, wd, trace_module, trace_file, props):
    """Linearizability validation: accepted iff TLC consumes the trace to its end on SOME choice of Lin points.
    A rejection is reported at the high-water line; validation then resumes at the next reset."""
    lines = open(trace_file).read().splitlines()
    total = len(lines)
    mism = []
    base = 0
    part = 0
    while base < total:
        part += 1
        seg = lines[base:]
        fn = '%s.p%d' % (os.path.basename(trace_file), part)
        open(os.path.join(wd, fn), 'w').write('\n'.join(seg) + '\n')
        cfgname = 'tv-%s.cfg' % fn
        write_cfg(os.path.join(wd, cfgname), consts={'File': tla_str(fn), 'Props': tla_set(props)}, extra='POSTCONDITION HighWater')
        out, rc = tlc(run, wd, trace_module + '.tla', cfgname, workers=1, xmx='3g', timeout=3000)
        for line in out.splitlines():
            if line.startswith('"MISMATCH '):
                m = parse_mismatch(line)
                m['line'] += base
                if m['info'] and m['info'][0] == 'fault':
                    m['info'] = m['info'][:2] + [str(m['info'][2])[:600]]
                mism.append(m)
        if ('"TRACE-END %d"' % len(seg)) in out:
            break
        hm = re.search(r'"HIGHWATER (\d+)"', out)
        if not hm:
            raise Infra('linearizability check produced no high-water mark:\n' + out[-3000:])
        hw = int(hm.group(1))          # first line (1-based, in seg) that no behaviour could consume
        ev = {}
        try:
            ev = json.loads(seg[hw - 1])
        except Exception:
            pass
        o = ev.get('o', {})
        for pid in props:
            mism.append({'id': pid, 'line': base + hw, 'info': ['not linearizable', ev.get('ev', ''), o.get('op', ''), o.get('inst', ''),
                                                            json.dumps(ev)[:700]]})
        nxt = None
        for j in range(hw, len(seg)):
            if seg[j].startswith('{"ev":"reset"'):
                nxt = j
                break
        if nxt is None:
            break
        base += nxt
    return mism, total


def validate_shard(run, wd, trace_module, trace_file, props, workers=1, deque=False):
    if trace_module == 'Trace_Lin':
        return validate_lin(run, wd, trace_module, trace_file, props)
    cfgname = 'tv-%s.cfg' % os.path.basename(trace_file)
    write_cfg(os.path.join(wd, cfgname), consts={'File': tla_str(os.path.basename(trace_file)), 'Props': tla_set(props)})
    out, rc = tlc(run, wd, trace_module + '.tla', cfgname, workers=workers, xmx='3g', timeout=3000, deque=deque)
    n = sum(1 for _ in open(trace_file))
    mism = []
    if '"DRIFT ' in out:
        # a hook that no longer reports is drift of the instrumentation (e.g. after a refactoring), never a verdict: noted, not fatal
        d = [l for l in out.splitlines() if l.startswith('"DRIFT ')]
        run.notes.append('instrumentation drift: %d call(s) without the expected access reports, e.g. %s' % (len(d), d[0][:200]))
        log('NOTE instrumentation drift (not a verdict): ' + d[0][:200])
    nd = out.count('"TREE-DRIFT ')
    if nd:
        run.tree_drift += nd
    for line in out.splitlines():
        if line.startswith('"MISMATCH '):
            mism.append(parse_mismatch(line))
    if ('"TRACE-END %d"' % n) not in out:
        raise Infra('trace %s was not consumed to its end by %s (spec or harness error):\n%s' % (trace_file, trace_module, out[-3000:]))
    return mism, n


def exec_and_validate(run, gen, st):
    """Replay cases on the real code (sharded), validate every trace with TLC (sharded)."""
    wd = run.sub('x-' + gen['name'])
    binp = build_harness(run, race=st.get('race', False))
    k = min(st.get('max_shards', NCPU), max(1, gen['n'] // st.get('min_per_shard', 20)))
    shards = shard_cases(gen, wd, k)
    tm = st['trace']
    props = st.get('props') or [run.prop]

    def one(cases):
        trace = cases.replace('cases-', 'trace-')
        rc, stats, err = run_harness(binp, cases, trace, nodedup=st.get('nodedup', False))
        if rc != 0:
            return ('harness', cases, rc, err)
        mism, n = validate_shard(run, wd, tm, trace, props, deque=st.get('deque', False))
        return ('ok', cases, trace, stats, mism, n)

    with cf.ThreadPoolExecutor(max_workers=NCPU) as ex:
        results = list(ex.map(one, shards))
    for r in results:
        if r[0] == 'harness':
            raise Infra('harness run failed on %s (rc=%s):\n%s' % (r[1], r[2], (r[3] or '')[-3000:]))
        _, cases, trace, stats, mism, n = r
        run.cases += stats.get('cases', 0)
        run.exec += stats.get('exec', 0)
        run.events += n
        run.validated_traces += stats.get('cases', 0)
        for m in mism:
            run.mismatches.append({'cases': cases, 'trace': trace, 'm': m, 'trace_module': tm, 'props': props, 'race': st.get('race', False),
                                   'replay_prefix': st.get('replay_prefix', False)})
        collect_samples(run, trace)
    log('[exec %s] %d cases, %d requests executed, %d events validated, %d mismatches so far'
        % (gen['name'], run.cases, run.exec, run.events, len(run.mismatches)))


def collect_samples(run, trace):
    """Distinct non-trivial observations and a few sample histories for the evidence file."""
    cur = []
    with open(trace) as f:
        for line in f:
            try:
                e = json.loads(line)
            except Exception:
                continue
            ev = e.get('ev')
            if ev in ('reset', 'greset', 'xreset'):
                if cur and len(run.samples) < 3:
                    run.samples.append(cur)
                cur = [e] if len(run.samples) < 3 else []
                continue
            if len(run.samples) < 3 and len(cur) < 12:
                cur.append(e)
            if ev == 'dump':
                run.tree_dumps += 1
            if nontrivial(e):
                run.distinct.add(hashlib.md5(line.encode()).digest())
    if cur and len(run.samples) < 3:
        run.samples.append(cur)


def nontrivial(e):
    ev = e.get('ev')
    if ev == 'serve':
        r = e.get('r', {})
        return r.get('kind') not in ('404', '', None) or r.get('panic') not in ('none', None)
    return ev not in ('reset', 'greset', 'xreset')


# ------------------------------------------------------------------ confirmation by replay
def case_of_line(trace, cases, line_no):
    """Find the case (history) a trace line belongs to."""
    cid = None
    with open(trace) as f:
        for i, line in enumerate(f, 1):
            if i > line_no:
                break
            if line.startswith('{"ev":"reset"') or line.startswith('{"ev":"greset"') or line.startswith('{"ev":"xreset"'):
                cid = json.loads(line).get('id')
    pool = None
    with open(cases) as f:
        for line in f:
            if line.startswith('{"pool"'):
                pool = json.loads(line)
                continue
            c = json.loads(line)
            if c.get('id') == cid:
                return pool, c
    return pool, None


def event_at(trace, line_no):
    with open(trace) as f:
        for i, line in enumerate(f, 1):
            if i == line_no:
                return json.loads(line)
    return None


def cases_before(cases, cid):
    out = []
    with open(cases) as f:
        for line in f:
            if line.startswith('{"pool"'):
                continue
            c = json.loads(line)
            if c.get('id') == cid:
                break
            out.append(c)
    return out


def replay_file(run, cand, outdir):
    m = cand['m']
    if cand.get('repotests'):
        doc = cand.get('replay_doc') or {'property': m['id'], 'mismatch': m}
        d = os.path.join(outdir, m['id'])
        os.makedirs(d, exist_ok=True)
        p = os.path.join(d, 'repotests-%s.json' % hashlib.sha1(json.dumps(m, sort_keys=True).encode()).hexdigest()[:12])
        json.dump(doc, open(p, 'w'), indent=1)
        return p
    pool, case = case_of_line(cand['trace'], cand['cases'], m['line'])
    if case is None:
        return None
    ev = event_at(cand['trace'], m['line'])
    prefix = cases_before(cand['cases'], case.get('id')) if cand.get('replay_prefix') else []
    doc = {'property': m['id'], 'trace_module': cand['trace_module'], 'race': cand.get('race', False), 'pool': pool, 'prefix_cases': prefix, 'case': case, 'event': ev, 'mismatch': m,
           'how': 'verifctl replay <this file>: the case is re-executed on the current /repo build and the trace re-validated by TLC'}
    body = json.dumps(doc, indent=1, sort_keys=True)
    # two disagreements of different classes at the same event are different candidates (they are confirmed in parallel):
    # each gets a file of its own, written atomically
    sha = hashlib.sha1(json.dumps([case, ev, m.get('id'), (m.get('info') or ['?'])[0]], sort_keys=True).encode()).hexdigest()[:16]
    d = os.path.join(outdir, m['id'])
    os.makedirs(d, exist_ok=True)
    p = os.path.join(d, sha + '.json')
    tmp = '%s.%d.%d.tmp' % (p, os.getpid(), threading.get_ident())
    open(tmp, 'w').write(body)
    os.replace(tmp, p)
    return p


def mismatch_key(m):
    """What identifies 'the same disagreement' when a replay is re-validated: property id + diagnostic class + stable info.
    Concurrent histories differ from run to run, so for them the class (fault kind / not linearizable + op kind) is the key."""
    info = m.get('info', [])
    if info and info[0] in ('fault', 'not linearizable'):
        return (m['id'], json.dumps(info[:2], sort_keys=True))
    return (m['id'], json.dumps(info, sort_keys=True))


def do_replay(run, path):
    """Re-execute a replay file; return the list of mismatches of its property that recur."""
    doc = json.load(open(path))
    # a directory of its own per re-execution (the single-case replay and the replay with its prefix cases share a file name)
    wd = run.sub('replay-%s-%s-%d' % (os.path.basename(os.path.dirname(path)), os.path.basename(path), threading.get_ident()))
    cases = os.path.join(wd, 'cases-00.ndjson')
    with open(cases, 'w') as f:
        if doc.get('pool'):
            f.write(json.dumps(doc['pool']) + '\n')
        for c in doc.get('prefix_cases', []):       # process-wide state (context pool): the cases the same process ran before
            f.write(json.dumps(c) + '\n')
        f.write(json.dumps(doc['case']) + '\n')
    binp = build_harness(run, race=doc.get('race', False))
    want = mismatch_key(doc['mismatch'])
    # real schedules differ from run to run: a concurrent history gets several re-executions before it counts as not reproduced
    tries = 6 if doc['trace_module'] == 'Trace_Lin' else 1
    same, mism = [], []
    for t in range(tries):
        trace = os.path.join(wd, 'trace-%02d.ndjson' % t)
        rc, stats, err = run_harness(binp, cases, trace, nodedup=True)
        if rc != 0:
            raise Infra('replay harness failed: ' + str(err)[-2000:])
        mism, n = validate_shard(run, wd, doc['trace_module'], trace, [doc['property']])
        same = [m for m in mism if mismatch_key(m) == want]
        if not same:
            # the recorded details may depend on what the process did before (a buffer that keeps growing, a pooled object):
            # a disagreement of the same property and the same diagnostic class, recurring when the case is executed again,
            # is the same violation
            cls = (doc['mismatch'].get('info') or ['?'])[0]
            same = [m for m in mism if m['id'] == doc['mismatch']['id'] and (m.get('info') or ['?'])[0] == cls]
        if same:
            break
    return same, mism


# ------------------------------------------------------------------ known findings
def load_known():
    p = os.path.join(ROOT, 'known_findings.json')
    if not os.path.exists(p):
        return {'findings': [], 'fixed': []}
    return json.load(open(p))


def known_match(known, m):
    """A listed finding matches a mismatch when property, diagnostic class and all listed info fields agree."""
    for f in known.get('findings', []):
        if f['property'] != m['id']:
            continue
        info = m.get('info', [])
        if not info or info[0] != f['diagnostic']:
            continue
        if all(i < len(info) and info[i] == v for i, v in ((int(k), v) for k, v in f.get('info_equals', {}).items())):
            return f
    return None


# ------------------------------------------------------------------ evidence
def write_evidence(run, violations, known_hits, rule, assumptions, extra=None):
    cov = {
        'states': max(run.states, 0), 'transitions': max(run.transitions, 0),
        'traces_validated_against_impl': run.validated_traces,
        'evaluations': run.events, 'distinct_nontrivial': len(run.distinct),
        'requests_executed_on_impl': run.exec,
        'rule': rule,
        'samples': run.samples[:3] if run.samples else [],
        'exhaustive': bool(run.exhaustive_parts),
        'exhaustive_parts': run.exhaustive_parts,
        'tlc_runs': len(run.tlc_cmds), 'tlc_cmds_sample': run.tlc_cmds[:6],
        'known_findings_reported': known_hits,
        'notes': run.notes[:5],
        'tree_shapes_compared_with_Tree_tla': run.tree_dumps, 'tree_shape_differences_reported_as_drift': run.tree_drift,
    }
    if extra:
        cov.update(extra)
    doc = {'property_id': run.prop, 'tier': run.tier, 'seed': run.seed, 'level': 'model_checking', 'coverage': cov,
           'assumptions': assumptions, 'wall_s': round(time.time() - run.t0, 1), 'violations': violations}
    evdir = os.path.join(ROOT, 'evidence')
    if os.environ.get('VERIF_NOEVIDENCE'):      # evaluation of seeded changes must not overwrite the committed evidence
        evdir = os.path.join(run.dir, 'evidence')
    os.makedirs(evdir, exist_ok=True)
    p = os.path.join(evdir, run.prop + '.json')
    tmp = p + '.tmp'
    json.dump(doc, open(tmp, 'w'), indent=1)
    os.replace(tmp, p)


# ------------------------------------------------------------------ check driver
def run_check(prop, tier, seed):
    import plans
    plan = plans.plan(prop, tier)
    run = Run(prop, tier, seed)
    try:
        for st in plan['stages']:
            kind = st['kind']
            if kind == 'mc':
                stage_mc(run, st)
            elif kind == 'ind':
                stage_ind(run, st)
            elif kind == 'mc_neg':
                stage_mc_neg(run, st)
            elif kind == 'repotests':
                stage_repotests(run, st)
            elif kind == 'gen':
                g = stage_gen(run, st)
                exec_and_validate(run, g, st)
            elif kind == 'gogen':
                g = stage_gogen(run, st)
                exec_and_validate(run, g, st)
            elif kind == 'custom':
                st['fn'](run, st)
            else:
                raise Infra('unknown stage kind ' + kind)
        if os.environ.get('VERIF_DEBUG'):
            import collections
            cnt, exm = collections.Counter(), {}
            for c in run.mismatches:
                k = (c['m']['id'], str(c['m']['info'][0]))
                cnt[k] += 1
                exm.setdefault(k, c)
            for k, v in sorted(cnt.items()):
                log('  CLASS %6d %s %s' % (v, k, json.dumps(exm[k]['m'])[:700]))
                if os.environ.get('VERIF_DEBUG') == '2':
                    pool, case = case_of_line(exm[k]['trace'], exm[k]['cases'], exm[k]['m']['line'])
                    if case:
                        log('      CASE ' + json.dumps({'cfg': case.get('cfg'), 'ops': [[o.get('op'), o.get('inst'), o.get('pat'), o.get('methods'), o.get('chain'), o.get('m')] for o in case['ops']]})[:1500])
                    log('      EVENT ' + json.dumps(event_at(exm[k]['trace'], exm[k]['m']['line']))[:900])
        # ---- verdicts
        known = load_known()
        cands = {}
        for c in run.mismatches:
            if c['m']['id'] != prop:
                continue
            cands.setdefault(mismatch_key(c['m']), c)
        violations, known_hits, unrepro = [], [], 0
        outdir = os.path.join(ROOT, 'replays') if not os.environ.get('VERIF_NOEVIDENCE') else os.path.join(tempfile.gettempdir(), 'verif-replays')
        # confirm a handful of distinct candidates (each costs a re-execution + one TLC run), in parallel
        allc = list(cands.items())
        step = max(1, len(allc) // 48)
        allc = allc[::step][:48]                 # spread over the whole run, not only its first lines

        def confirm(item):
            key, c = item
            f = known_match(known, c['m'])
            if c.get('repotests'):
                r2 = Run(run.prop, run.tier, run.seed)
                try:
                    stage_repotests(r2, {'props': c['props']})
                    again = any(mismatch_key(x['m']) == key for x in r2.mismatches)
                finally:
                    keep = os.path.join(run.sub('cand'), 'repotests-trace.ndjson')
                    try:
                        shutil.copy(os.path.join(r2.dir, 'repotests', 'trace-repo.ndjson'), keep)
                    except Exception:
                        pass
                    r2.cleanup()
                c['replay_doc'] = {'property': c['m']['id'], 'trace_module': 'Trace_Tree', 'mismatch': c['m'], 'event': event_at(c['trace'], c['m']['line']),
                                   'how': 'run the repository tests with -tags verif and VERIF_TRACE=<file>, validate <file> with spec/Trace_Tree.tla'}
                return ('confirmed' if again else 'unrepro', c, f)
            rp = replay_file(run, c, run.sub('cand'))
            if rp is None:
                return ('unrepro', c, f)
            same, allm = do_replay(run, rp)
            if not same and not c.get('replay_prefix') and c['trace_module'] != 'Trace_Lin':
                # process-wide state (pools, caches) may come from the cases this process ran before: replay them too
                c2 = dict(c, replay_prefix=True)
                rp2 = replay_file(run, c2, run.sub('cand2'))
                if rp2 is not None:
                    same, allm = do_replay(run, rp2)
                    if same:
                        c['replay_prefix'] = True
            if not same:
                return ('unrepro', c, f)
            return ('confirmed', c, f)

        if allc:
            build_harness(run)
        for b in range(0, len(allc), 16):
            todo = allc[b:b + 16]
            with cf.ThreadPoolExecutor(max_workers=8) as ex:
                for status, c, f in ex.map(confirm, todo):
                    if status == 'unrepro':
                        unrepro += 1
                        log('candidate not reproduced by replay (dropped): ' + json.dumps(c['m'])[:300])
                    elif f is not None:
                        known_hits.append(f['what'])
                    else:
                        final = replay_file(run, c, outdir)
                        violations.append((c['m'], final))
            if violations:
                break
        for w in sorted(set(known_hits)):
            print('KNOWN-FINDING: property=%s %s' % (prop, w))
        write_evidence(run, len(violations), sorted(set(known_hits)), plan['rule'], plan['assumptions'],
                       {'candidates': len(cands), 'unreproduced_candidates': unrepro})
        if violations:
            for m, p in violations[:10]:
                print('VIOLATION property=%s replay=%s' % (prop, p))
                log('  ' + json.dumps(m)[:600])
            return 1
        if unrepro and not violations and not known_hits:
            log('%d candidate disagreement(s) could not be reproduced by replay: infrastructure problem' % unrepro)
            return 2
        print('OK property=%s tier=%s seed=%d states=%d traces=%d events=%d wall=%.0fs'
              % (prop, tier, seed, run.states, run.validated_traces, run.events, time.time() - run.t0))
        return 0
    finally:
        if not os.environ.get('VERIF_KEEP'):
            run.cleanup()
        else:
            log('kept run dir ' + run.dir)


def cmd_replay(path):
    doc = json.load(open(path))
    run = Run(doc['property'], 'quick', 0)
    try:
        same, allm = do_replay(run, path)
        for m in allm:
            log('  mismatch: ' + json.dumps(m)[:600])
        if same:
            print('VIOLATION property=%s replay=%s' % (doc['property'], os.path.abspath(path)))
            return 1
        print('replay accepted by the specification: property=%s' % doc['property'])
        return 0
    finally:
        run.cleanup()


def main():
    if len(sys.argv) < 2:
        print(__doc__)
        return 2
    cmd = sys.argv[1]
    try:
        if cmd == 'check':
            prop = sys.argv[2]
            tier = os.environ.get('VERIF_TIER', 'quick')
            if '--tier' in sys.argv:
                tier = sys.argv[sys.argv.index('--tier') + 1]
            seed = int(os.environ.get('VERIF_SEED', '1') or 1)
            return run_check(prop, tier, seed)
        if cmd == 'replay':
            return cmd_replay(sys.argv[2])
        if cmd == 'setup':
            import plans
            return plans.setup()
        if cmd == 'selftest':
            import plans
            return plans.selftest()
        print(__doc__)
        return 2
    except Infra as e:
        log('INFRA: ' + str(e))
        return 2


if __name__ == '__main__':
    sys.exit(main())
