"""Per-property verification plans: which bounded model checks, which TLC-generated behaviour
sets, which Go-side input drivers, validated by which trace specification."""
import os, sys, json, subprocess

ASSUME_COMMON = [
    'TLC 1.8 and the CommunityModules Json reader are trusted',
    'the Go harness records faithfully what the real router did (recording ResponseWriter with net/http commit semantics)',
    'patterns are well-formed (balanced tokens, literal text without braces); regexp rules are restricted to the vocabulary whose meaning the specification defines',
    'exhaustive only within the stated constants; beyond them coverage is by seeded simulation and randomized drivers',
]

ASSUME_CONC = ASSUME_COMMON + [
    'all interleavings are enumerated on the specification (Lock.tla / Globals.tla); on the code they are sampled by real schedules under the Go race detector, which is trusted to turn a data race between overlapping operations into an observable fault',
    'the harness brackets operations with one atomic counter: operations that do not overlap in a run are ordered by it, so race detection applies to operations that really overlapped (unlogged stress iterations have no such ordering)',
]

RULE_ROUTER = ('cases are TLC-generated histories of Router.tla (BFS: every history up to the depth from every base table; '
               '-simulate: seeded random behaviours) plus Go-driver inputs, replayed on the real router; after the history an observation '
               'battery (Routes(), every probe path x every probe method, URL round trips) is recorded and every event validated by the TLC trace '
               'specification. An observation is counted once per distinct (abstract table, probe, recorded reply); it is non-trivial unless it is a plain 404.')


def sub(pool, **kw):
    """constant substitutions for a pool suffix of MC_Router.tla"""
    s = {'Cfgs': 'Cfgs' + pool, 'Bases': 'Bases' + pool, 'HOps': 'HOps' + pool, 'ROps': 'ROps' + pool, 'COps': 'COps' + pool,
         'UOps': 'UOps' + pool, 'Probes': 'Probes' + pool, 'ProbeMethods': 'Methods' + pool, 'CaseExtra': 'NoExtra', 'UrlProbes': 'NoUrls', 'THProbes': 'NoUrls', 'MOps': 'NoMOps'}
    if pool in ('X', 'T', 'C'):
        s['MOps'] = 'MiscOps'
    s.update(kw)
    return s


MC_INV = ['TableOK', 'C01_Sound', 'C03_Reach', 'C08_Derived', 'C04_Allow', 'C18_Any', 'C10_Roundtrip']
MC_PROPS = ['C17_Atomic', 'C03_Frame']


def mc_router(pool, name=None):
    return {'kind': 'mc', 'name': name or ('router' + pool), 'module': 'MC_Router', 'subst': sub(pool),
            'consts': {'Depth': 100, 'EmitAll': 'FALSE', 'Battery': '"last"', 'RoundTrip': 'FALSE', 'Link': 'FALSE', 'Dump': 'FALSE'}, 'view': 'view',
            'invariants': MC_INV, 'properties': MC_PROPS}


def gen_bfs(pool, depth, name=None, extra='NoExtra', props=None, limit=None, sample=None, module='MC_Router', consts=None, rt=False, urls=None, th=None, link=False, dump=False):
    c = {'Depth': depth, 'EmitAll': 'TRUE', 'Battery': '"last"', 'RoundTrip': 'TRUE' if rt else 'FALSE', 'Link': 'TRUE' if link else 'FALSE', 'Dump': 'TRUE' if dump else 'FALSE'}
    c.update(consts or {})
    return {'kind': 'gen', 'name': name or ('bfs%s%d' % (pool, depth)), 'module': module, 'subst': sub(pool, CaseExtra=extra, UrlProbes=(urls or 'NoUrls'), THProbes=(th or 'NoUrls')),
            'consts': c, 'trace': 'Trace_Router', 'props': props, 'limit': limit, 'sample': sample}


def gogen(mode, n, name=None, props=None, seedoff=0, fam='router', trace='Trace_Router'):
    return {'kind': 'gogen', 'name': name or ('go-' + fam + '-' + mode), 'fam': fam, 'mode': mode, 'n': n, 'trace': trace, 'props': props,
            'seedoff': seedoff, 'min_per_shard': 2}


def gen_sim(pool, depth, num, name=None, extra='NoExtra', props=None, seedoff=0, module='MC_Router', rt=False, link=False):
    return {'kind': 'gen', 'name': name or ('sim%s%d' % (pool, depth)), 'module': module, 'subst': sub(pool, CaseExtra=extra),
            'consts': {'Depth': depth, 'EmitAll': 'FALSE', 'Battery': '"every"', 'RoundTrip': 'TRUE' if rt else 'FALSE', 'Link': 'TRUE' if link else 'FALSE', 'Dump': 'FALSE'}, 'simulate': num, 'depth': depth + 8,
            'trace': 'Trace_Router', 'props': props, 'seedoff': seedoff}


RULE_HEAD = ('TLC enumerates every handler program up to the length bound over {SetHeader(2 keys x 2 values), WriteHeader(200|201|404), Write(0|1|3)}; '
             'each program is installed as a GET handler on the real router and requested with GET and HEAD against a recording ResponseWriter; the trace '
             'spec compares both with the response-writer model of Head.tla. Plus Router-family histories over method lists (pool X) for the HEAD/OPTIONS derivation rules. '
             'A case is non-trivial unless it is a plain 404.')


def head_stages(maxlen, sample=None):
    sb = {'Steps': 'StepsH'}
    return [{'kind': 'mc', 'name': 'head%d' % maxlen, 'module': 'MC_Head', 'subst': sb, 'consts': {'MaxLen': maxlen},
             'invariants': ['C08_Consistent', 'GetCommitted'], 'workers': 8},
            {'kind': 'gen', 'name': 'progs%d' % maxlen, 'module': 'MC_Head', 'subst': sb, 'consts': {'MaxLen': maxlen}, 'trace': 'Trace_Head',
             'sample': sample, 'min_per_shard': 200}]


def p_c08(q):
    if q:
        return head_stages(4) + [gogen('long', 100, fam='head', trace='Trace_Head'), gen_bfs('X', 2, sample=0.12, link=True), gen_bfs('C', 1, link=True), gen_bfs('Y', 3, link=True)]
    return head_stages(5) + [gogen('long', 3000, fam='head', trace='Trace_Head'), mc_router('T'), gen_bfs('X', 2, link=True), gen_bfs('C', 2, link=True), gen_bfs('Y', 3, link=True),
                             gen_sim('X', 10, 60, link=True), gogen('mixed', 800)]


RULE_CORS = ('TLC enumerates the product of CORS configuration classes (origins x allowed headers x exposed x max-age x credentials, incl. invalid ones) and, per configuration, '
             'every request class (method x path x Origin x Access-Control-Request-Method x Access-Control-Request-Headers with case/spacing variants) on a fixed route table; '
             'each request is executed on the real router and the SENT response headers are validated against Cors.tla. Non-trivial = any reply that is not a plain 404.')


def cors_stages(sample, n_go):
    return [{'kind': 'mc', 'name': 'cors', 'module': 'MC_Cors', 'invariants': ['DecisionConsistent' if sample >= 1.0 else 'DecisionConsistentSmall'], 'workers': 16},
            {'kind': 'gen', 'name': 'corsprod', 'module': 'MC_Cors', 'trace': 'Trace_Router', 'sample': sample, 'min_per_shard': 1}]


RULE_GROUP = ('TLC generates histories of Group.Add/New/Remove/Use over a pool of 11 matcher expressions (Hosts, path/header version, And/Or combinations, nil) '
              'followed by a product of requests (host x path x Accept x method; for C16 fault site x panic value); each is executed through Group.ServeHTTP / Router.ServeHTTP '
              'and validated against Group.tla / Matchers.tla. Non-trivial = any reply.')


def group_stages(depth, sel, sample, recs='{FALSE, TRUE}', props=None):
    c = {'Depth': depth, 'EmitAll': 'TRUE', 'Recs': recs, 'ReqSel': '"%s"' % sel, 'Alphas': '{"full"}'}
    st = [{'kind': 'mc', 'name': 'matchers', 'module': 'MC_Group', 'consts': dict(c, Depth=0), 'invariants': ['NoTrace'], 'workers': 2},
          {'kind': 'mc', 'name': 'group', 'module': 'MC_Group', 'consts': dict(c, Depth=2, Alphas='{"full", "deep"}'), 'invariants': ['NamesUnique', 'FirstWins'], 'workers': 16, 'view': 'viewG'},
          {'kind': 'gen', 'name': 'grp%s%d' % (sel, depth), 'module': 'MC_Group', 'consts': c, 'trace': 'Trace_Group', 'sample': sample, 'min_per_shard': 4, 'props': props},
          # the deep base (group middleware + two routers already added) with per-router Use / Handle calls, every history to depth 3
          {'kind': 'gen', 'name': 'grpdeep%s' % sel, 'module': 'MC_Group', 'consts': dict(c, Alphas='{"deep"}'), 'trace': 'Trace_Group', 'min_per_shard': 4, 'props': props}]
    return st


RULE_MATCH = ('TLC generates (C14) every history up to the depth of Hosts.Add / Delete (case variants, absent, parameterised domains) from three base tables (>= 7 literal domains + wildcard domains), '
              'each followed by a probe set of Host strings (as is, upper case, :80, :, invalid port, bracketed IPv6); (C15) every ordered version list x every path up to the length bound over {/ v 1 x}, '
              'and header-version declarations x Accept strings (mime.ParseMediaType answer logged). Every call is executed on the real matcher and validated against Matchers.tla. Non-trivial = accepted matches and rejected near-misses alike (all events).')


def match_stages(mode, depth, pathlen, sample=None):
    c = {'Mode': '"%s"' % mode, 'Depth': depth, 'PathLen': pathlen}
    inv = {'hosts': ['NormSane'], 'pathver': ['PathVerSane'], 'headerver': []}[mode]
    st = []
    if inv:
        st.append({'kind': 'mc', 'name': 'm-' + mode, 'module': 'MC_Match', 'consts': dict(c, Depth=0), 'invariants': inv, 'workers': 8})
    st.append({'kind': 'gen', 'name': 'g-' + mode + (str(depth) if depth > 2 else ''), 'module': 'MC_Match', 'consts': c, 'trace': 'Trace_Match', 'sample': sample, 'min_per_shard': 1})
    return st


RULE_PARAMS = ('TLC generates every sequence of Set/Delete/Reset/recycle(Destroy+NewContext) up to the depth over 3 keys (incl. the empty key) x 16 edge-case values; '
               'after every operation all accessors are recorded for every key together with the logged strconv answers and validated against Params.tla. Non-trivial = every accessor observation.')


def params_stages(depth, sample):
    return [{'kind': 'mc', 'name': 'params', 'module': 'MC_Params', 'subst': {'Keys': 'KeysP', 'Vals': 'ValsSmall'}, 'consts': {'Depth': 4, 'EmitAll': 'FALSE'},
             'invariants': ['MapLaws'], 'view': 'viewP', 'workers': 8},
            {'kind': 'gen', 'name': 'params%d' % depth, 'module': 'MC_Params', 'subst': {'Keys': 'KeysP', 'Vals': 'ValsP'}, 'consts': {'Depth': depth, 'EmitAll': 'TRUE'},
             'trace': 'Trace_Params', 'sample': sample, 'min_per_shard': 50, 'replay_prefix': True}]


RULE_CONC = ('TLC (-simulate, seeded) generates concurrent PROGRAMS (one op list per goroutine: writers Handle/Remove/Clean that split and re-merge nodes of untouched routes, '
             'readers ServeHTTP/Routes/URL; or one goroutine per independent instance; or readers on a quiescent router); each program runs with real goroutines on a -race build in a child process: '
             'logged iterations (call/ret bracketed by one atomic counter, context enter/exit) are validated for linearizability by Trace_Lin.tla, unlogged stress iterations add schedules; '
             'a race report, runtime fatal error, panic or hang is a fault event the specification never admits. Lock.tla model-checks the lock discipline for all interleavings. Non-trivial = every op event.')


def lock_stages(q):
    c = {'Discipline': '"intended"', 'NOps': 2}
    sb = {'Writers': 'W2', 'Readers': 'R2' if q else 'R3'}
    inv = ['RaceFree', 'LockOK', 'NoTornReply', 'NoDeadlock']
    return [{'kind': 'mc', 'name': 'lock', 'module': 'MC_Lock', 'subst': sb, 'consts': c, 'invariants': inv, 'workers': 16},
            {'kind': 'mc_neg', 'name': 'lock-asbuilt', 'module': 'MC_Lock', 'subst': {'Writers': 'W2', 'Readers': 'R2'}, 'consts': dict(c, Discipline='"asBuilt"'),
             'invariants': ['RaceFree'], 'expect': 'RaceFree'},
            {'kind': 'mc_neg', 'name': 'lock-recursive-read', 'module': 'MC_Lock', 'subst': {'Writers': 'W2', 'Readers': 'R2'}, 'consts': dict(c, Discipline='"recursiveRead"'),
             'invariants': ['NoDeadlock'], 'expect': 'NoDeadlock'},
            # liveness under weak fairness of every goroutine: all operations complete, a waiting writer gets the lock (no starvation);
            # the recursive read lock must break it (vacuity guard)
            {'kind': 'mc', 'name': 'lock-live', 'module': 'MC_Lock', 'spec': 'FairSpec', 'subst': {'Writers': 'W2', 'Readers': 'R2'}, 'consts': c,
             'properties': ['Termination', 'WriterProgress'], 'workers': 8},
            {'kind': 'mc_neg', 'name': 'lock-live-recursive-read', 'module': 'MC_Lock', 'spec': 'FairSpec', 'subst': {'Writers': 'W2', 'Readers': 'R2'},
             'consts': dict(c, Discipline='"recursiveRead"'), 'properties': ['Termination'], 'expect': 'Termination'},
            {'kind': 'ind', 'name': 'lock-inductive', 'module': 'LockInd', 'safety': 'Safety', 'unbounded_in': 'number of operations per goroutine, generations of the route',
             'consts': {'Writers': '{"w1", "w2"}', 'Readers': '{"r1", "r2", "r3"}', 'Discipline': '"intended"', 'NOps': 2},
             'neg_consts': {'Writers': '{"w1", "w2"}', 'Readers': '{"r1", "r2", "r3"}', 'Discipline': '"asBuilt"', 'NOps': 2}}]


def globals_stages(q):
    c = {'Discipline': '"intended"', 'NOps': 2 if q else 3}
    sb = {'Procs': 'P3', 'Ctxs': 'C3'}
    return [{'kind': 'mc', 'name': 'globals', 'module': 'MC_Globals', 'subst': sb, 'consts': c, 'invariants': ['RaceFree', 'PoolOK'], 'workers': 16},
            {'kind': 'mc_neg', 'name': 'globals-asbuilt', 'module': 'MC_Globals', 'subst': sb, 'consts': dict(c, Discipline='"asBuilt"', NOps=2),
             'invariants': ['RaceFree'], 'expect': 'RaceFree'},
            {'kind': 'ind', 'name': 'globals-inductive', 'module': 'GlobalsInd', 'safety': 'Safety', 'unbounded_in': 'number of registrations / requests per goroutine',
             'consts': {'Procs': '{"p1", "p2", "p3"}', 'Ctxs': '{"c1", "c2", "c3"}', 'Discipline': '"intended"', 'NOps': 2},
             'neg_consts': {'Procs': '{"p1", "p2", "p3"}', 'Ctxs': '{"c1", "c2", "c3"}', 'Discipline': '"asBuilt"', 'NOps': 2}}]


def conc_stage(mode, k, num, iters, stress, seedoff=0):
    st = {'kind': 'gen', 'name': 'conc-' + mode, 'module': 'MC_Conc', 'consts': {'Mode': '"%s"' % mode, 'K': k, 'Iter': iters, 'Stress': stress},
          'simulate': num, 'depth': 64, 'trace': 'Trace_Lin', 'race': True, 'min_per_shard': 2, 'max_shards': 8, 'seedoff': seedoff, 'limit': num * 6 if num else None}
    if not num:        # exhaustive: every program of the mode (TLC BFS), each in a process of its own
        del st['simulate'], st['depth']
        st['max_shards'] = 16
    return st


def plan(prop, tier):
    q = tier == 'quick'
    if prop == 'C06':
        disc = [dict(gen_bfs('T', 2, extra='LockExtra'), trace='Trace_LockDisc', name='lockdiscT'), dict(gen_bfs('C', 1 if q else 2, extra='LockExtra'), trace='Trace_LockDisc', name='lockdiscC')]
        disc.append(subF(gen_bfs('F', 2, sample=0.08 if q else 0.5, module='MC_RouterF', name='callerslices')))   # a call never writes into the middleware slice its caller still owns
        return {'stages': lock_stages(q) + disc + [conc_stage('c06', 5, 10 if q else 60, 3, 25 if q else 60)], 'rule': RULE_CONC, 'assumptions': ASSUME_CONC}
    if prop == 'C07':
        return {'stages': globals_stages(q) + group_stages(2, 'C13', 0.1 if q else 0.5)[2:] + [conc_stage('c07inst', 4, 2 if q else 30, 2, 15 if q else 40), conc_stage('c07quiet', 6, 2 if q else 30, 3, 15 if q else 40, 1),
                                               conc_stage('c07seq', 8, 6 if q else 80, 1, 0, 2), conc_stage('c07fresh', 2 if q else 3, None, 1, 0), conc_stage('c07group', 6, 2 if q else 30, 3, 15 if q else 40, 3)], 'rule': RULE_CONC, 'assumptions': ASSUME_CONC}
    if prop == 'C20':
        return {'stages': params_stages(2, 1.0) + params_stages(3, 0.1 if q else 0.6)[1:]
                + [dict(gogen('bytes', 300 if q else 5000, fam='params', trace='Trace_Params'), replay_prefix=True, min_per_shard=20)],
                'rule': RULE_PARAMS, 'assumptions': ASSUME_COMMON}
    if prop == 'C14':
        # quick: every depth-2 history + a seeded 30 % of the depth-3 histories + random Host bytes; thorough: every depth-3 history
        return {'stages': match_stages('hosts', 2, 1, 1.0) + match_stages('hosts', 3, 1, 0.3 if q else 1.0)[1:]
                + [gogen('bytes', 150 if q else 3000, fam='match', trace='Trace_Match', seedoff=3)], 'rule': RULE_MATCH, 'assumptions': ASSUME_COMMON}
    if prop == 'C15':
        return {'stages': match_stages('pathver', 0, 6 if q else 7) + match_stages('headerver', 0, 1)
                + [gogen('bytes', 150 if q else 3000, fam='match', trace='Trace_Match', seedoff=3)], 'rule': RULE_MATCH, 'assumptions': ASSUME_COMMON}
    if prop == 'C13':
        return {'stages': group_stages(2 if q else 3, 'C13', 0.5 if q else 0.08) + [gogen('bytes', 60 if q else 1500, fam='group', trace='Trace_Group')],
                'rule': RULE_GROUP, 'assumptions': ASSUME_COMMON}
    if prop == 'C16':
        st = group_stages(2, 'C16', 0.08 if q else 0.5)
        deep16 = dict(st[3], name='grpdeep16', consts=dict(st[3]['consts'], Alphas='{"deep16"}'))
        return {'stages': st[:3] + [deep16, conc_stage('c07quiet', 6, 2 if q else 20, 3, 10 if q else 30, 1)], 'rule': RULE_GROUP, 'assumptions': ASSUME_COMMON}
    if prop in ('C11', 'C12'):
        return {'stages': cors_stages(0.2 if q else 1.0, 0) + [gogen('rand', 150 if q else 3000, fam='cors')], 'rule': RULE_CORS, 'assumptions': ASSUME_COMMON}
    if prop == 'C08':
        return {'stages': p_c08(q), 'rule': RULE_HEAD, 'assumptions': ASSUME_COMMON}
    if prop in ROUTER_PLANS:
        stages = ROUTER_PLANS[prop](q)
        return {'stages': stages, 'rule': RULE_ROUTER, 'assumptions': ASSUME_COMMON}
    raise SystemExit('no plan for ' + prop)


def p_smoke(q):
    ALL = ['C01','C02','C03','C04','C05','C08','C09','C10','C13','C17','C18','C19']
    return [mc_router('T'), gen_bfs('T', 2 if q else 3, props=ALL), gen_sim('T', 6, 50, props=ALL)]


def p_dbg(pool, depth):
    def f(q):
        ALL = ['C01','C02','C03','C04','C05','C08','C09','C10','C13','C17','C18','C19']
        if os.environ.get('DBG_PROPS'):
            ALL = os.environ['DBG_PROPS'].split(',')
        return [gen_bfs(pool, depth, props=ALL)]
    return f


REPOTESTS = {'kind': 'repotests', 'name': 'repotests'}


def p_c01(q):
    if q:
        return [mc_router('T'), REPOTESTS, gen_bfs('A', 2, sample=0.35), gen_bfs('B', 1), gen_bfs('R', 2), gen_bfs('Y', 3), gen_bfs('FC', 3, module='MC_RouterF'), gen_sim('A', 8, 12), gogen('bytes', 60)]
    return [mc_router('T'), mc_router('M', 'routerM'), gen_bfs('A', 2), gen_bfs('B', 2), gen_bfs('C', 2), gen_bfs('X', 2, sample=0.3), gen_bfs('R', 3), gen_bfs('Y', 3), gen_bfs('FC', 3, module='MC_RouterF'),
            gen_sim('A', 12, 60), gen_sim('B', 12, 40, seedoff=1), gogen('bytes', 1500), gogen('mixed', 800, seedoff=1)]


def mc_tree(depth):
    return {'kind': 'mc', 'name': 'tree-refinement', 'module': 'MC_Tree', 'consts': {'Depth': depth}, 'view': 'viewT',
            'invariants': ['TableRef', 'SoundRef', 'AddOnlyRef'], 'workers': 16}


def p_c02(q):
    if q:
        return [mc_router('T'), mc_tree(4), gen_bfs('O', 4, module='MC_RouterO', consts={'L': 4}, sample=0.012), gen_bfs('O', 3, name='bfsO3', module='MC_RouterO', consts={'L': 4}, dump=True), gogen('addonly', 80)]
    return [mc_router('T'), mc_tree(6), REPOTESTS, gen_bfs('O', 4, module='MC_RouterO', consts={'L': 5}, dump=True, sample=0.03), gen_bfs('O', 3, name='bfsO3', module='MC_RouterO', consts={'L': 5}, dump=True), dict(gen_bfs('O', 2, name='bfsO2L6', module='MC_RouterO', consts={'L': 6}), timeout=5400),   # (TLC needs ~20 min to order the 19 687 probe paths)
            gogen('addonly', 2000)]


def p_c03(q):
    if q:
        return [mc_router('T'), mc_tree(4), gen_bfs('B', 2, sample=0.12, dump=True), gen_bfs('C', 2, sample=0.4, dump=True), gen_bfs('X', 2, sample=0.05), gen_bfs('R', 5, sample=0.3), gen_bfs('A', 2, sample=0.15),
                gen_bfs('Y', 3, link=True), gen_bfs('FC', 3, module='MC_RouterF'), gen_bfs('K', 3), gen_sim('B', 8, 10), gogen('mixed', 40)]
    return [mc_router('T'), mc_router('M', 'routerM'), mc_tree(6), REPOTESTS, gen_bfs('A', 2, dump=True), gen_bfs('B', 2, dump=True), gen_bfs('C', 2, dump=True), gen_bfs('X', 2, sample=0.3), gen_bfs('R', 6), gen_bfs('Y', 3, link=True), gen_bfs('FC', 3, module='MC_RouterF'), gen_bfs('K', 4),
            gen_sim('A', 14, 60), gen_sim('B', 14, 60, seedoff=1), gen_sim('C', 14, 40, seedoff=2), gogen('mixed', 1500)]


def p_c04(q):
    if q:
        return [mc_router('T'), REPOTESTS, gen_bfs('C', 2), gen_bfs('X', 2, sample=0.08), gen_bfs('Y', 3), gen_sim('C', 8, 10)]
    return [mc_router('T'), mc_router('M', 'routerM'), gen_bfs('C', 3, sample=0.4), gen_bfs('X', 2, sample=0.4), gen_bfs('A', 2, sample=0.5), gen_bfs('Y', 3),
            gen_sim('C', 14, 80), gogen('mixed', 1000)]


def p_c05(q):
    if q:
        return [mc_router('T'), gen_bfs('X', 2, sample=0.04), gen_bfs('B', 2, sample=0.1), gen_bfs('R', 5, sample=0.15), gen_bfs('A', 2, sample=0.2), gen_bfs('Wd', 2), gogen('bytes', 100), gogen('patterns', 1500, seedoff=2),
                gogen('patenum4', 0, name='go-patenum4'), gogen('bytes', 60, fam='match', trace='Trace_Match', seedoff=3), gogen('bytes', 40, fam='group', trace='Trace_Group', seedoff=4)] + cors_stages(0.06, 0)[1:]
    return [mc_router('T'), gen_bfs('X', 2, sample=0.5), gen_bfs('B', 2), gen_bfs('A', 2, sample=0.5), gen_bfs('Wd', 2), gogen('bytes', 3000), gogen('mixed', 1000, seedoff=1),
            gogen('patterns', 30000, seedoff=2), gogen('patenum6', 0, name='go-patenum6'), gogen('bytes', 1500, fam='match', trace='Trace_Match', seedoff=3), gogen('bytes', 1000, fam='group', trace='Trace_Group', seedoff=4)] + cors_stages(0.5, 0)[1:]


def p_c17(q):
    if q:
        return [mc_router('T'), gen_bfs('X', 2, sample=0.12, extra='BaseExtra'), gen_bfs('A', 1, extra='BaseExtra'), gogen('mixed', 40)]
    return [mc_router('T'), gen_bfs('X', 2, extra='BaseExtra'), gen_bfs('A', 2, sample=0.5, extra='BaseExtra'), gen_bfs('C', 2, extra='BaseExtra'),
            gen_sim('X', 10, 80), gogen('mixed', 1500)]


def p_c10(q):
    if q:
        return [mc_router('T'), gen_bfs('U', 1, module='MC_RouterU', urls='UrlProbesU', rt=True), gen_bfs('A', 1, rt=True), gen_sim('A', 6, 6, rt=True)]
    return [mc_router('T'), mc_router('M', 'routerM'), gen_bfs('U', 1, module='MC_RouterU', urls='UrlProbesU', rt=True), gen_bfs('A', 2, rt=True, sample=0.5),
            gen_bfs('B', 1, rt=True), gen_sim('A', 12, 40, rt=True)]


def subF(st):
    st['subst'].update({'MOps': 'MOpsF', 'HOps': 'HOpsFO', 'Bases': 'BasesFO'})
    return st


def p_c19(q):
    F = dict(module='MC_RouterF', extra='MirrorExtra', urls='UrlSetF', rt=True)
    if q:
        return [mc_router('T'), subF(gen_bfs('F', 2, sample=0.25, **F)), gen_bfs('FC', 3, module='MC_RouterF', extra='MirrorExtra'), gen_bfs('V', 2, module='MC_RouterF', extra='MirrorExtra', sample=0.5), gen_bfs('B', 1, module='MC_RouterF', extra='MirrorExtra'), gen_bfs('K', 3, module='MC_RouterF', extra='MirrorExtra'),
                subF(gen_sim('F', 8, 8, module='MC_RouterF', extra='MirrorExtra'))]
    return [mc_router('T'), subF(gen_bfs('F', 2, **F)), gen_bfs('FC', 3, module='MC_RouterF', extra='MirrorExtra'), gen_bfs('V', 2, module='MC_RouterF', extra='MirrorExtra'), gen_bfs('B', 2, module='MC_RouterF', extra='MirrorExtra', sample=0.3), gen_bfs('K', 3, module='MC_RouterF', extra='MirrorExtra'), subF(gen_sim('F', 4, 300, name='simF4', seedoff=5, **{k: v for k, v in F.items() if k in ('module', 'extra')})),
            subF(gen_sim('F', 14, 60, module='MC_RouterF', extra='MirrorExtra'))]


def p_c09(q):
    F = dict(module='MC_RouterF')
    if q:
        return [mc_router('T'), subF(gen_bfs('F', 2, sample=0.25, **F)), subF(gen_sim('F', 8, 8, module='MC_RouterF'))] + group_stages(2, 'C13', 0.1)[2:]
    return [mc_router('T'), subF(gen_bfs('F', 2, **F)), subF(gen_sim('F', 4, 300, name='simF4', seedoff=5, **{k: v for k, v in F.items() if k in ('module', 'extra')})), subF(gen_sim('F', 14, 60, module='MC_RouterF'))] + group_stages(2, 'C13', 0.5)[2:]


def p_c18(q):
    if q:
        return [mc_router('T'), gen_bfs('C', 2, th='StdTH', sample=0.6), gen_bfs('X', 2, sample=0.1), gen_bfs('Y', 3), gogen('mixed', 40)]
    return [mc_router('T'), mc_router('M', 'routerM'), gen_bfs('C', 2, th='StdTH'), gen_bfs('X', 2, sample=0.5), gen_bfs('Y', 3), gen_bfs('F', 2, module='MC_RouterF', sample=0.3),
            gen_sim('C', 12, 60), gogen('mixed', 1000)]


def p_dump(q):
    return [gen_bfs('O', 3, module='MC_RouterO', consts={'L': 2}, dump=True, props=['C02']), gen_bfs('B', 2, sample=0.3, dump=True, props=['C03']), gen_bfs('A', 2, sample=0.3, dump=True, props=['C03'])]


ROUTER_PLANS = {
    'TD': p_dump, 'TL': (lambda q: lock_stages(q) + globals_stages(q)), 'TW': p_dbg('Wd', 2), 'TO': (lambda q: [gen_bfs('O', 4, module='MC_RouterO', consts={'L': 5}, dump=True, sample=0.02, props=['C02'])]),
    'C18': p_c18,
    'C19': p_c19, 'C09': p_c09,
    'C10': p_c10,
    'C01': p_c01, 'C02': p_c02, 'C03': p_c03, 'C04': p_c04, 'C05': p_c05, 'C17': p_c17,
    'T00': p_smoke, 'TA': p_dbg('A', 2), 'TB': p_dbg('B', 2), 'TC': p_dbg('C', 2), 'TX': p_dbg('X', 2),
}


def setup():
    """Build the harness once (warms the Go build cache) and parse every specification module."""
    import vlib
    run = vlib.Run('setup', 'quick', 0)
    try:
        vlib.build_harness(run)
        for f in sorted(os.listdir(vlib.SPEC)):
            if f.endswith('.tla'):
                p = subprocess.run(['java', '-Djava.io.tmpdir=' + run.dir, '-cp', vlib.JAR, 'tla2sany.SANY', f], cwd=vlib.SPEC, capture_output=True, text=True)
                if p.returncode != 0 or 'error' in p.stdout.lower().replace('errors: 0', ''):
                    if 'Semantic errors' in p.stdout or 'Parse Error' in p.stdout or p.returncode != 0:
                        print(p.stdout[-2000:])
                        return 2
        print('setup: harness builds, all modules parse')
        rc = selftest()
        print('setup ok' if rc == 0 else 'setup FAILED')
        return rc
    finally:
        run.cleanup()


def selftest():
    """Demonstrates that the binding is live: a good recorded trace is accepted, and each of four corruptions
    (a captured parameter, an Allow header, a reply kind, a removed Handle line) is rejected by the trace specification."""
    import vlib, json, copy
    ALL = ['C01', 'C02', 'C03', 'C04', 'C05', 'C08', 'C09', 'C17', 'C18']
    run = vlib.Run('selftest', 'quick', 0)
    try:
        g = vlib.stage_gen(run, gen_bfs('T', 1))
        wd = run.sub('st')
        binp = vlib.build_harness(run)
        cases = vlib.shard_cases(g, wd, 1)[0]
        trace = os.path.join(wd, 'trace-good.ndjson')
        rc, stats, err = vlib.run_harness(binp, cases, trace, nodedup=True)
        if rc != 0:
            print('selftest: harness failed', err)
            return 2
        mism, n = vlib.validate_shard(run, wd, 'Trace_Router', trace, ALL)
        if mism:
            print('selftest: the unmodified trace is not accepted:', json.dumps(mism[0])[:500])
            return 2
        lines = open(trace).read().splitlines()

        def variant(name, edit):
            out = edit([json.loads(l) for l in lines])
            if out is None:
                print('selftest: no line to corrupt for', name)
                return False
            f = os.path.join(wd, 'trace-%s.ndjson' % name)
            open(f, 'w').write('\n'.join(json.dumps(e) for e in out) + '\n')
            mm, _ = vlib.validate_shard(run, wd, 'Trace_Router', f, ALL)
            print('selftest: %-14s -> %d disagreement(s) reported%s' % (name, len(mm), '' if mm else '  ** NOT REJECTED **'))
            return bool(mm)

        def first(evs, pred):
            for i, e in enumerate(evs):
                if pred(e):
                    return i
            return None

        def e_param(evs):
            i = first(evs, lambda e: e.get('ev') == 'serve' and e['r']['kind'] == 'route' and e['r']['params'])
            if i is None:
                return None
            k = sorted(evs[i]['r']['params'])[0]
            evs[i]['r']['params'][k] += 'x'
            return evs

        def e_allow(evs):
            i = first(evs, lambda e: e.get('ev') == 'serve' and e['r']['kind'] == 'opt' and e['r']['pat'] != '')
            if i is None:
                return None
            evs[i]['r']['allowH'] = [m for m in evs[i]['r']['allowH'] if m != 'OPTIONS'] + ['PATCH']
            return evs

        def e_kind(evs):
            i = first(evs, lambda e: e.get('ev') == 'serve' and e['r']['kind'] == '405')
            if i is None:
                return None
            evs[i]['r']['kind'] = '404'
            evs[i]['r']['hasNode'] = False
            evs[i]['r']['pat'] = ''
            return evs

        def e_drop(evs):
            i = first(evs, lambda e: e.get('ev') == 'handle' and e.get('res') == 'ok')
            if i is None:
                return None
            return evs[:i] + evs[i + 1:]

        ok = all([variant('param', e_param), variant('allow', e_allow), variant('kind', e_kind), variant('dropped-op', e_drop)])
        # the verif access hooks must report on the unchanged tree (lock-discipline binding is live)
        g2 = vlib.stage_gen(run, dict(gen_bfs('T', 1, extra='LockExtra'), name='st-lock'))
        wd2 = run.sub('st2')
        c2 = vlib.shard_cases(g2, wd2, 1)[0]
        t2 = os.path.join(wd2, 'trace-lock.ndjson')
        rc, stats, err = vlib.run_harness(binp, c2, t2, nodedup=True)
        mm2, n2 = vlib.validate_shard(run, wd2, 'Trace_LockDisc', t2, ['C06'])
        hooks_ok = rc == 0 and not mm2 and not run.notes and n2 > 10
        print('selftest: access hooks      -> %d calls reported, %s' % (n2, 'accepted, no drift' if hooks_ok else '** drift or disagreement **'))
        ok = ok and hooks_ok
        print('selftest: good trace accepted (%d events); binding %s' % (n, 'LIVE' if ok else 'BROKEN'))
        return 0 if ok else 2
    finally:
        run.cleanup()
