"""Per-property verification plans: which bounded model checks, which TLC-generated behaviour
sets, which Go-side input drivers, validated by which trace specification."""
import os, sys, json, subprocess

ASSUME_COMMON = [
    'TLC 1.8 and the CommunityModules Json reader are trusted',
    'the Go harness records faithfully what the real router did (recording ResponseWriter with net/http commit semantics)',
    'patterns are well-formed (balanced tokens, literal text without braces); regexp rules are restricted to the vocabulary whose meaning the specification defines',
    'exhaustive only within the stated constants; beyond them coverage is by seeded simulation and randomized drivers',
]

RULE_ROUTER = ('cases are TLC-generated histories of Router.tla (BFS: every history up to the depth from every base table; '
               '-simulate: seeded random behaviours) plus Go-driver inputs, replayed on the real router; after the history an observation '
               'battery (Routes(), every probe path x every probe method, URL round trips) is recorded and every event validated by the TLC trace '
               'specification. An observation is counted once per distinct (abstract table, probe, recorded reply); it is non-trivial unless it is a plain 404.')


def sub(pool, **kw):
    """constant substitutions for a pool suffix of MC_Router.tla"""
    s = {'Cfgs': 'Cfgs' + pool, 'Bases': 'Bases' + pool, 'HOps': 'HOps' + pool, 'ROps': 'ROps' + pool, 'COps': 'COps' + pool,
         'UOps': 'UOps' + pool, 'Probes': 'Probes' + pool, 'ProbeMethods': 'Methods' + pool, 'CaseExtra': 'NoExtra'}
    s.update(kw)
    return s


MC_INV = ['TableOK', 'C01_Sound', 'C03_Reach', 'C08_Derived', 'C04_Allow', 'C18_Any']
MC_PROPS = ['C17_Atomic', 'C03_Frame']


def mc_router(pool, name=None):
    return {'kind': 'mc', 'name': name or ('router' + pool), 'module': 'MC_Router', 'subst': sub(pool),
            'consts': {'Depth': 100, 'EmitAll': 'FALSE', 'Battery': '"last"'}, 'view': 'view',
            'invariants': MC_INV, 'properties': MC_PROPS}


def gen_bfs(pool, depth, name=None, extra='NoExtra', props=None, limit=None):
    return {'kind': 'gen', 'name': name or ('bfs%s%d' % (pool, depth)), 'module': 'MC_Router', 'subst': sub(pool, CaseExtra=extra),
            'consts': {'Depth': depth, 'EmitAll': 'TRUE', 'Battery': '"last"'}, 'trace': 'Trace_Router', 'props': props, 'limit': limit}


def gen_sim(pool, depth, num, name=None, extra='NoExtra', props=None, seedoff=0):
    return {'kind': 'gen', 'name': name or ('sim%s%d' % (pool, depth)), 'module': 'MC_Router', 'subst': sub(pool, CaseExtra=extra),
            'consts': {'Depth': depth, 'EmitAll': 'FALSE', 'Battery': '"every"'}, 'simulate': num, 'depth': depth + 8,
            'trace': 'Trace_Router', 'props': props, 'seedoff': seedoff}


def plan(prop, tier):
    q = tier == 'quick'
    if prop in ROUTER_PLANS:
        stages = ROUTER_PLANS[prop](q)
        return {'stages': stages, 'rule': RULE_ROUTER, 'assumptions': ASSUME_COMMON}
    raise SystemExit('no plan for ' + prop)


def p_smoke(q):
    ALL = ['C01','C02','C03','C04','C05','C08','C09','C10','C13','C17','C18','C19']
    return [mc_router('T'), gen_bfs('T', 2 if q else 3, props=ALL), gen_sim('T', 6, 50, props=ALL)]


ROUTER_PLANS = {
    'T00': p_smoke,
}


def setup():
    """Build the harness once (warms the Go build cache) and parse every specification module."""
    import vlib
    run = vlib.Run('setup', 'quick', 0)
    try:
        vlib.build_harness(run)
        for f in sorted(os.listdir(vlib.SPEC)):
            if f.endswith('.tla'):
                p = subprocess.run(['java', '-cp', vlib.JAR, 'tla2sany.SANY', f], cwd=vlib.SPEC, capture_output=True, text=True)
                if p.returncode != 0 or 'error' in p.stdout.lower().replace('errors: 0', ''):
                    if 'Semantic errors' in p.stdout or 'Parse Error' in p.stdout or p.returncode != 0:
                        print(p.stdout[-2000:])
                        return 2
        print('setup ok')
        return 0
    finally:
        run.cleanup()


def selftest():
    return 0
