#!/usr/bin/env python3
"""Writes seeded/README.md from seeded/*/meta.json: which check catches which seeded change."""
import json, os, glob
ROOT = os.path.dirname(os.path.dirname(os.path.abspath(__file__)))
rows = []
for mp in sorted(glob.glob(os.path.join(ROOT, 'seeded', '*', 'meta.json'))):
    m = json.load(open(mp))
    runs = m.get('ran', [])
    first = runs[0] if runs else {}
    last = runs[-1] if runs else {}
    st = lambda r: {1: 'DETECTED', 0: 'missed', 2: 'infra'}.get(r.get('exit'), '-')
    what = (m.get('needs_to_manifest') or '').strip().split('\n')
    title = next((l.strip('# ').strip() for l in what if l.strip()), '')[:110]
    diag = ''
    if last.get('diagnostic'):
        d = last['diagnostic'][0]
        i = d.find('"info"')
        diag = d[i:i + 140].replace('|', '/') if i >= 0 else ''
    own = [r for r in runs if r.get('check', m['property']) == m['property']]
    oth = [r for r in runs if r.get('check', m['property']) != m['property'] and r.get('exit') == 1]
    if own and own[-1].get('exit') != 1 and oth:      # not a violation of the property it was filed under: the other property's check catches it
        last = oth[-1]
    elif own:
        last = own[-1]
    by = '' if last.get('check', m['property']) == m['property'] else ' by the %s check' % last['check']
    rows.append((m['id'], m['property'], 'yes' if m.get('confirmed') else 'NO', title.replace('|', '/'), st(first), '%s%s (%s, %ss)' % (st(last), by, last.get('tier', ''), last.get('wall_s', '')), len(runs), diag))
with open(os.path.join(ROOT, 'seeded', 'README.md'), 'w') as f:
    f.write('# Seeded changes\n\nEach directory holds one change to issue9/mux written by a sub-agent that was given only the text of one property and a scratch worktree '
            '(nothing from /verif): `patch.diff`, the agent\'s demonstration test, its notes, and `meta.json` (what was confirmed and every run of the property\'s check '
            'against a scratch worktree carrying the change, `VERIF_REPO=<worktree> ./verifctl check <id>`). "confirmed" = the patch applies, the pinned suite still passes, '
            'the demonstration fails with the change and passes without it - all re-run by `tools/evalmut.py`, not taken from the agent.\n\n'
            '"first run" is the verdict of the check as it was when the change arrived; "latest run" after the strengthening described in DESIGN.md section 11.6.\n\n')
    f.write('| change | property | confirmed | what it is | first run | latest run | runs | diagnostic of the latest detection |\n|---|---|---|---|---|---|---|---|\n')
    for r in rows:
        f.write('| %s | %s | %s | %s | %s | %s | %d | `%s` |\n' % r)
    det = sum(1 for r in rows if r[5].startswith('DETECTED') and ' by the ' not in r[5])
    oth = sum(1 for r in rows if r[5].startswith('DETECTED') and ' by the ' in r[5])
    f.write('\n%d of %d seeded changes are detected by the quick tier of their property\'s check (latest run); %d more by the check of the property they really violate '
            '(the change does not contradict the statement it was filed under - DESIGN.md section 11.6).\n' % (det, len(rows), oth))
print(len(rows))
