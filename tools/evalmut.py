#!/usr/bin/env python3
"""Evaluate one seeded change: confirm it (applies, builds, pinned tests pass, demo fails with / passes without),
run the property's check against a scratch worktree carrying the change, and store everything under seeded/<name>/.
usage: evalmut.py <Cxx> <k> [--tier quick|thorough] [--props C01,C03]"""
import sys, os, json, subprocess, shutil, re, time
ROOT = os.path.dirname(os.path.dirname(os.path.abspath(__file__)))
ENV = dict(os.environ, GOFLAGS='-mod=mod', GOPROXY='off', GOSUMDB='off', GOTOOLCHAIN='local')

def sh(cmd, cwd=None, env=ENV, timeout=3600):
    p = subprocess.run(cmd, shell=True, cwd=cwd, env=env, capture_output=True, text=True, errors='replace', timeout=timeout)
    return p.returncode, p.stdout + p.stderr

def main():
    pid, k = sys.argv[1], sys.argv[2]
    tier = 'quick'
    if '--tier' in sys.argv:
        tier = sys.argv[sys.argv.index('--tier') + 1]
    props = [pid]
    if '--props' in sys.argv:
        props = sys.argv[sys.argv.index('--props') + 1].split(',')
    srcroot = '/tmp/mut/out'
    if '--src' in sys.argv:
        srcroot = sys.argv[sys.argv.index('--src') + 1]
    src = '%s/%s' % (srcroot, pid)
    patch = os.path.join(src, 'patch_%s.diff' % k)
    ported = None
    if '--patch' in sys.argv:     # the change re-applied by hand to the current tree (later fix / hook commits moved the context)
        ported = patch
        patch = sys.argv[sys.argv.index('--patch') + 1]
    demo = os.path.join(src, 'demo_%s_test.go' % k)
    name = '%s-%s' % (pid, k)
    if '--name' in sys.argv:
        name = sys.argv[sys.argv.index('--name') + 1]
    out = os.path.join(ROOT, 'seeded', name)
    os.makedirs(out, exist_ok=True)
    wt = '/tmp/mut/eval-' + name
    sh('git -C /repo worktree remove --force %s' % wt)
    rc, o = sh('git -C /repo worktree add -q --detach %s HEAD' % wt)
    meta = {'id': name, 'property': pid, 'source': 'sub-agent given only the property text and a scratch worktree', 'ran': []}
    if ported:
        meta['ported'] = 'the original patch (original.diff) no longer applies to the tree with the verif hooks; patch.diff is the same change re-applied by hand, the hook call kept next to the tree access it reports'
        os.makedirs(out, exist_ok=True)
        shutil.copy(ported, os.path.join(out, 'original.diff'))
    try:
        # demo location / command from its header comment
        head = open(demo, errors='replace').read()[:3000]
        m = re.search(r'go test[^\n`]*', head)
        cmd = m.group(0).strip() if m else 'go test -vet=off -count=1 -run TestDemo%s .' % k
        dm = re.search(r'(?:copied? (?:in)?to|directory)[^\n]*?((?:/tmp/mut/%s|WORKTREE|\.)?/?(?:internal/\w+|types|\.))' % pid, head)
        pkg = re.search(r'^package (\w+)', open(demo, errors='replace').read(), re.M).group(1)
        pkg = pkg[:-5] if pkg.endswith('_test') and pkg != 'mux_test' else pkg
        sub = '.'
        if pkg in ('tree', 'syntax', 'trace'):
            sub = 'internal/' + pkg
        elif pkg == 'types':
            sub = 'types'
        dst = os.path.join(wt, sub, 'zz_demo_%s_test.go' % k)
        # 1. unchanged: demo passes
        shutil.copy(demo, dst)
        rc0, o0 = sh(cmd, cwd=os.path.join(wt, sub) if sub != '.' and ' ./' not in cmd and not cmd.endswith(' .') else wt)
        if sub != '.' and rc0 != 0:
            rc0, o0 = sh(cmd, cwd=os.path.join(wt, sub))
        meta['demo_cmd'] = cmd
        meta['demo_dir'] = sub
        meta['demo_passes_unchanged'] = rc0 == 0
        os.remove(dst)
        # 2. apply
        rc, o = sh('git apply %s' % patch, cwd=wt)
        if rc != 0:   # the tree has moved on since the change was written (later fix / hook commits): accept reduced context
            rc, o = sh('git apply -C1 %s || patch -p1 --fuzz=3 -i %s' % (patch, patch), cwd=wt)
        meta['applies'] = rc == 0
        if rc != 0:
            meta['error'] = o[-500:]
            return finish(meta, out, patch, demo, src, k)
        rc, o = sh('go build ./... && go test -vet=off -count=1 ./...', cwd=wt)
        meta['pinned_tests_pass_with_change'] = rc == 0
        shutil.copy(demo, dst)
        cwd = os.path.join(wt, sub) if sub != '.' else wt
        rc1, o1 = sh(cmd, cwd=cwd)
        meta['demo_fails_with_change'] = rc1 != 0
        meta['demo_output_with_change'] = o1[-600:]
        os.remove(dst)
        meta['confirmed'] = bool(meta['demo_passes_unchanged'] and meta['pinned_tests_pass_with_change'] and meta['demo_fails_with_change'])
        # 3. run the checks against the changed worktree
        for p in props:
            t0 = time.time()
            rc, o = sh('./verifctl check %s --tier %s' % (p, tier), cwd=ROOT, env=dict(ENV, VERIF_REPO=wt, VERIF_NOEVIDENCE='1'))
            viol = [l for l in o.splitlines() if l.startswith('VIOLATION')]
            diag = [l for l in o.splitlines() if '"id"' in l and '"info"' in l][:2]
            meta['ran'].append({'check': p, 'tier': tier, 'exit': rc, 'violation_lines': viol[:3], 'diagnostic': [d[-500:] for d in diag], 'wall_s': round(time.time() - t0)})
            print('%s: check %s (%s) exit=%d %s' % (name, p, tier, rc, 'DETECTED' if rc == 1 else ('MISSED' if rc == 0 else 'INFRA')))
            if rc == 2:
                print(o[-1500:])
    finally:
        sh('git -C /repo worktree remove --force %s' % wt)
    finish(meta, out, patch, demo, src, k)

def finish(meta, out, patch, demo, src, k):
    shutil.copy(patch, os.path.join(out, 'patch.diff'))
    shutil.copy(demo, os.path.join(out, os.path.basename(demo)))
    n = os.path.join(src, 'notes_%s.md' % k)
    if os.path.exists(n):
        shutil.copy(n, os.path.join(out, 'notes.md'))
        txt = open(n, errors='replace').read()
        meta['needs_to_manifest'] = txt[:1200]
    old = {}
    mp = os.path.join(out, 'meta.json')
    if os.path.exists(mp):
        old = json.load(open(mp))
        meta['ran'] = old.get('ran', []) + meta['ran']
    json.dump(meta, open(mp, 'w'), indent=1)
    print(json.dumps({k2: meta.get(k2) for k2 in ('id', 'confirmed', 'applies', 'pinned_tests_pass_with_change', 'demo_passes_unchanged', 'demo_fails_with_change')}))

main()
