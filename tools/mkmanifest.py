#!/usr/bin/env python3
"""Regenerates /verif/MANIFEST.json from the table below (single source of truth for what is claimed)."""
import json, os, subprocess
ROOT = os.path.dirname(os.path.dirname(os.path.abspath(__file__)))
ids = [json.loads(l)['id'] for l in open(os.path.join(ROOT, 'properties.jsonl'))]

NOTE = ('trusted: TLC 1.8 + CommunityModules Json reader, the Go harness recorder, stdlib answers logged as inputs (regexp.Compile); '
        'exhaustive only within the stated constants (pools/depths in lib/plans.py, spec/MC_*.tla); patterns restricted to the well-formed class and the regexp vocabulary of Syntax.tla')

CLAIMED = {
 'C01': ('Router.tla/Resolve.tla: TLC checks exhaustively (bounded pools) that every admissible reply of the specification is sound; the real router is bound by replaying TLC-generated histories (BFS all histories to depth 2 from base tables, seeded simulation) and byte-mutated paths, every recorded dispatch is validated by the trace spec with Fits/CapNames directly on the observed reply (independent of the resolver).', '5 C01',
         'TLC model checking + trace validation of replayed TLC behaviours (Trace_Router.tla, check C01)'),
 'C02': ('Resolve.tla is the documented resolution procedure as a function of the live pattern set; TLC generates every ordered registration sequence (depth 4 over 10 competing patterns) and the harness probes every path up to length L over a 5-letter alphabet; each observed outcome must be a member of the admissible set Res (404 iff empty). Tree.tla (structural transcription of internal/tree) is model-checked to refine Resolve.tla on every registration order (MC_Tree: TableRef, SoundRef, AddOnlyRef) and its shape is compared with the dumped shape of the real tree (drift report).', '5 C02 / 11.5',
         'TLC-generated registration orders x exhaustive path set, outcome membership in Resolve.tla admissible set'),
 'C03': ('Router.tla Handle/Remove/Clean actions; TLC enumerates all histories to depth 2 from base tables with >=6 literal siblings / top-level literals / split-prone pairs, the battery (Routes, witness paths x methods, frame comparison with the battery before the removal) is validated by the trace spec; C03_Frame and C03_Reach are also model-checked on the specification; pools R (a route losing all of its >= 5 children in every order), Y (TRACE as ordinary method), FC (routes at a cleaned prefix) run unsampled; the tests of the repository itself are validated through the call-trace hooks (Trace_Tree.tla).', '5 C03 / 11.5',
         'TLC model checking (C03_Frame, C03_Reach) + trace validation of all depth-2 histories'),
 'C04': ('AllowSet/RootAllowOK in RouterOps.tla; every OPTIONS/405 Allow header (read through the node captured at first registration), Node().Methods(), Routes() entry and OPTIONS * reply recorded after every TLC-generated history (pool C with/without WithTrace, method-list pool X) is compared as a set with the specification table.', '5 C04',
         'trace validation of TLC-generated histories against AllowSet / RootAllowOK'),
 'C05': ('the specification is total (no crash action): every recorded call must carry panic=none (serve, Routes, URL, CheckSyntax) or an error value (Handle); arbitrary-byte paths/methods from the Go driver and all histories of pools X and B; Handle verdict compared with CheckSyntax on fresh routers.', '5 C05',
         'trace validation: totality of the specification vs recorded faults, randomized byte inputs'),
 'C06': ('Lock.tla models one WithLock(true) router with one action per critical section / tree access (begin and end steps, so overlaps are states); TLC checks RaceFree, LockOK and NoTornReply for ALL interleavings of 2 writers x 2-3 readers x 2 operations under the intended discipline and NoDeadlock, must find the race under the as-built (pinned) discipline and the deadlock under the recursive-read discipline (Go RWMutex: a waiting writer blocks new readers); under weak fairness of every goroutine TLC also checks the temporal properties Termination and WriterProgress (and must see Termination fail under recursive-read); an inductive invariant (spec/apalache/LockInd.tla) discharged by Apalache extends RaceFree/LockOK/NoTornReply to any number of operations. The code is bound by real schedules: TLC-generated concurrent programs (writers Handle/Remove/Clean that split and re-merge nodes of untouched routes, readers ServeHTTP/Routes/URL) run with real goroutines on a -race build; call/ret histories are validated for linearizability against RouterOps by Trace_Lin.tla; race reports, fatal errors, panics and hangs are faults. Binding 2: verif access hooks report site / read-write / lock mode actually held in single-goroutine replays, validated by Trace_LockDisc.tla (mutating calls entirely under W, observers under R).', '5 C06 / 11.5',
         'TLC model checking of Lock.tla (all interleavings) + linearizability trace validation (Trace_Lin.tla) of -race goroutine runs'),
 'C07': ('Globals.tla models the package-level memo and the context pool shared by distinct instances (RaceFree, PoolOK for all interleavings of 3 goroutines; as-built deviation must fail; inductive invariant spec/apalache/GlobalsInd.tla discharged by Apalache for any number of operations). Bound to the code by -race runs of one goroutine per independent instance (routers built inside the goroutine, a Hosts matcher), of 4 readers on a quiescent router with and without WithLock (context enter/exit events: no context handed to two in-flight requests), by EVERY short sequence of multi-method registrations / partial removals run in a process of its own (nothing in the process has built a method set before), and by sequential multi-instance orders in a fresh process where every observation of an instance (incl. OPTIONS * on a router created after unrelated activity) is validated against that instance\'s own specification state.', '5 C07',
         'TLC model checking of Globals.tla + per-instance trace validation (Trace_Lin.tla) of -race multi-instance runs'),
 'C08': ('Head.tla: a response writer with net/http commit semantics and handler programs; TLC enumerates every program up to length 4 (quick) / 5 (thorough) over SetHeader/WriteHeader/Write steps and checks C08_Consistent; each program is run on the real router with GET and HEAD and the recorded replies must satisfy HeadOK (same status, same sent headers but Content-Length, no body bytes, Content-Length = bytes written when the handler did not send the header). Derivation rules (HEAD iff GET, OPTIONS automatic and not removable alone, reserved/unknown methods rejected) are validated on all depth-2 histories of the method-list pool X.', '5 C08',
         'TLC enumeration of handler programs + trace validation against Head.tla; Router-family trace validation for derivation rules'),
 'C09': ('RouterOps.tla builds every handler stack from the call history (registration list, prefix chain innermost first, Use oldest first); TLC enumerates all depth-2 programs of Use / Prefix / Prefix.Prefix / Resource / Handle-with-middlewares from two base tables, with and without WithTrace; for every handler kind (route, HEAD, OPTIONS, 405, 404, TRACE, OPTIONS *) the recorded run order must equal the specified order and the multiset of factory invocations (tag, method, pattern, router) of every Handle / Use call must equal the specified one.', '5 C09',
         'trace validation of TLC-generated facade/middleware programs: run order and factory-invocation multisets'),
 'C10': ('URLResult in RouterOps.tla; exhaustive product in TLC of 13 patterns (well-formed + one per documented error class) x 216 params maps x strict/non-strict x Router.URL/mux.URL x 3 route tables x 3 URL domains (25k calls), plus the round trip URL(pattern, captured params) = path after every dispatched probe; C10_Roundtrip model-checked on the specification.', '5 C10',
         'exhaustive product enumerated by TLC, every call validated against URLResult; round-trip checks'),
 'C18': ('ServeOutcomes prescribes the trace handler for every path when WithTrace is set (C18_Any model-checked) and ordinary-method semantics otherwise; validated on all depth-2 histories of pools C and X with both configurations; the bundled Trace helper is called directly with requests containing HTML metacharacters, reply = 200 / Content-Type message/http in the SENT header snapshot / body = HtmlEscape(logged httputil dump).', '5 C18',
         'TLC model checking (C18_Any) + trace validation incl. Trace helper against HtmlEscape(dump)'),
 'C19': ('facade actions are DEFINED by desugaring (FacadePat/FacadeMws); TLC generates every depth-2 program of facade calls (5 prefix chains, 2 resources, per-object middlewares, Handle/Remove/Clean/URL) from two base tables; the harness runs the program through the facade on instance A and the desugared Router calls on instance B; every observation (Routes, dispatch, params, order, Allow, URL) of A must equal B and the specification.', '5 C19',
         'trace validation with mirror instance (facade vs desugared program)'),
 'C11': ('Cors.tla states C11_NoMore on the SENT response headers as a function of configuration, request and what the router found; TLC enumerates the product of 321 configuration classes x 3840 request classes (method incl. empty, path incl. *, Origin, Access-Control-Request-Method/Headers with case, spacing and list variants) and checks DecisionConsistent; every request is executed on the real router (quick: 20% of the configurations, thorough: all) and validated.', '5 C11 / 6.2',
         'exhaustive configuration x request product generated by TLC, response headers validated against Cors.tla (C11_NoMore)'),
 'C12': ('Cors.tla C12_Exact: exact Allow-Origin / Credentials / Expose-Headers, preflight-only headers (Allow-Methods = route Allow set, Allow-Headers, Max-Age), Vary lower/upper bounds, configuration verdict of NewRouter; same exhaustive product as C11.', '5 C12 / 6.2',
         'exhaustive configuration x request product generated by TLC, response headers validated against Cors.tla (C12_Exact)'),
 'C13': ('Group.tla / Matchers.tla: GServeOutcomes = first router in order whose matcher accepts the ORIGINAL request, served as that router alone would serve the request the matcher produced; And/Or hand on what they received when they reject (NoTrace and FirstWins model-checked). TLC generates all depth-2 histories of Group.Add/New/Remove/Use over 11 matcher expressions x 288 requests (host x path x Accept x method).', '5 C13',
         'TLC model checking (NoTrace, FirstWins, NamesUnique) + trace validation of TLC-generated group histories'),
 'C14': ('Matchers.tla NormHost + resolution of C02 over the registered domain patterns; TLC generates all depth-2 (thorough 3) histories of Hosts.Add/Delete (case variants, absent, parameterised) from three base tables incl. >= 7 literal domains + wildcard domains, probed with ~100 Host strings (case, :port, empty/invalid port, bracketed IPv6).', '5 C14',
         'trace validation of TLC-generated Hosts histories against Matchers.tla'),
 'C15': ('PathVerEval / HeaderVerEval: exhaustive product of 32 ordered version lists x every path up to length 6 (thorough 7) over {/ v 1 x}; header matcher: 18 declarations x 12 Accept strings with the mime.ParseMediaType answer as logged input; PathVerSane model-checked.', '5 C15',
         'exhaustive product enumerated by TLC, every call validated against Matchers.tla'),
 'C16': ('Group.tla FaultOf/Guard: for every reply the first fault site in execution order (each middleware layer outermost first, then the handler of each kind) and whether a recovery function (router-own / inherited / group) guards it; TLC generates group histories x requests x fault site x panic value (error, string, runtime error) through Group.ServeHTTP and Router.ServeHTTP; escaped value, recovery invocations (exactly once, original value class) and later normal requests validated.', '5 C16',
         'trace validation of TLC-generated fault plans against Group.tla (FaultOf / Guard)'),
 'C20': ('Params.tla: context as a map with Set/Delete/Reset/recycle and accessors as relations to logged strconv answers; TLC generates every op sequence to depth 2 (+ depth 3 sampled) over 3 keys x 16 edge-case values, all accessors recorded after every op; MapLaws model-checked.', '5 C20',
         'TLC-generated op sequences, accessor observations validated against Params.tla'),
 'C17': ('HandleVerdicts/DoHandle: a rejected Handle leaves the router value unchanged (C17_Atomic model-checked); on the code, after every rejected Handle of pool X (valid/duplicate/reserved/unknown methods in every position, malformed and name-variant patterns) the full battery must equal the battery taken before the call and the unchanged specification table; verdict classes MustReject/MustAccept/either.', '5 C17',
         'TLC model checking (C17_Atomic) + trace validation with before/after battery comparison'),
}

checks = []
for pid, (text, ref, tech) in CLAIMED.items():
    checks.append({
        'property_id': pid,
        'quick_cmd': './verifctl check %s --tier quick' % pid,
        'thorough_cmd': './verifctl check %s --tier thorough' % pid,
        'evidence_file': 'evidence/%s.json' % pid,
        'replay_cmd_template': './verifctl replay {path}',
        'engine': 'tlc-trace',
        'level_claimed': {'category': 'model_checking', 'text': text, 'design_ref': 'DESIGN.md section ' + ref},
        'level_note': NOTE,
        'technique': tech,
    })

hooks_commits = []
try:
    out = subprocess.run(['git', '-C', '/repo', 'log', '--format=%H %s'], capture_output=True, text=True).stdout
    hooks_commits = [l.split()[0] for l in out.splitlines() if l.split(' ', 1)[1].startswith('verif:')]
except Exception:
    pass

m = {
 'version': 1,
 'setup_cmd': './verifctl setup',
 'hooks': {'guard': 'verif', 'enable': 'go build -tags verif (harness module copied to a scratch dir with replace github.com/issue9/mux/v9 => /repo)',
           'baseline_off_cmd': 'cd /repo && GOFLAGS=-mod=mod GOPROXY=off GOSUMDB=off GOTOOLCHAIN=local go test -vet=off -count=1 ./...',
           'source_commits': hooks_commits, 'add_only': True},
 'engines': [{'name': 'tlc-trace', 'path': 'verifctl', 'serves_properties': sorted(CLAIMED),
              'kind_free_text': 'explicit TLA+ specification (spec/*.tla) checked by TLC; TLC-generated behaviours replayed into the real code by the Go harness (harness/), recorded NDJSON traces validated by TLC trace specifications; orchestrated by lib/vlib.py'}],
 'checks': checks,
 'notes': 'see DESIGN.md; known findings / fixed defects in known_findings.json',
 'not_applicable': [{'property_id': i, 'reason': 'check not built yet (build in progress, planned in DESIGN.md section 5); nothing is claimed for it'} for i in ids if i not in CLAIMED],
}
json.dump(m, open(os.path.join(ROOT, 'MANIFEST.json'), 'w'), indent=1)
print('claimed', sorted(CLAIMED))
