#!/usr/bin/env python3
"""Print the measured-sizes table of DESIGN.md section 11.2 from evidence/*.json (whatever tier each file holds)."""
import json, glob, os, sys
sys.path.insert(0, os.path.join(os.path.dirname(os.path.abspath(__file__)), '..', 'lib'))
import plans


def k(n):
    return '%.1f M' % (n / 1e6) if n >= 1e6 else ('%d k' % round(n / 1e3) if n >= 10000 else ('%.1f k' % (n / 1e3) if n >= 1000 else str(n)))


def stage_names(pid, tier):
    try:
        st = plans.plan(pid, tier)['stages']
    except SystemExit:
        return ''
    out = []
    for s in st:
        n = s['name']
        if s.get('sample'):
            n += ' (%g %%)' % (100 * s['sample'])
        out.append(n)
    return ', '.join(out)


print('| id | tier | stages | TLC states | histories replayed | events validated | distinct non-trivial | requests on the real code | wall |')
print('|---|---|---|---|---|---|---|---|---|')
root = os.path.join(os.path.dirname(os.path.abspath(__file__)), '..', 'evidence')
for f in sorted(glob.glob(os.path.join(root, 'C??.json'))):
    e = json.load(open(f))
    c = e['coverage']
    print('| %s | %s | %s | %s | %s | %s | %s | %s | %d s |' % (e['property_id'], e['tier'], stage_names(e['property_id'], e['tier']), k(c.get('states', 0)),
          k(c.get('traces_validated_against_impl', 0)), k(c.get('evaluations', 0)), k(c.get('distinct_nontrivial', 0)), k(c.get('requests_executed_on_impl', 0)), round(e['wall_s'])))
