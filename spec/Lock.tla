-------------------------------- MODULE Lock --------------------------------
(* C06 at design level: one WithLock(true) router seen by concurrent         *)
(* goroutines.  One action per critical section or tree access of the code;  *)
(* every access is split into a begin and an end step so that overlaps are   *)
(* representable states.  Discipline = "intended" is the locking the         *)
(* repaired code implements (binding: harness -race runs + Trace_Lin);       *)
(* "asBuilt" is the pinned code before the fix (handler map read after       *)
(* RUnlock, ambiguity pre-check / strict URL / AllowHeader outside the lock) *)
(* and is kept as a named deviation: TLC must find its counterexample.       *)
EXTENDS Naturals, Sequences, FiniteSets, TLC
\* (the @type comments are for Apalache, which discharges the inductive invariant of apalache/LockInd.tla; TLC ignores them)
CONSTANTS
  \* @type: Set(Str);
  Writers,
  \* @type: Set(Str);
  Readers,
  \* @type: Str;
  Discipline,
  \* @type: Int;
  NOps
Procs == Writers \cup Readers
VARIABLES
  \* @type: Str -> Str;
  pc,      \* program counter of every goroutine
  \* @type: Str;
  wl,      \* write-lock holder ("none")
  \* @type: Set(Str);
  rl,      \* set of read-lock holders
  \* @type: Str -> Str;
  acc,     \* acc[p] \in {"none","r","w"}: p is inside an access to the tree right now
  \* @type: Str -> Int;
  left,    \* operations still to start
  \* @type: Bool;
  live,    \* the toggled route is registered (its node has handlers)
  \* @type: Int;
  gen,     \* generation of the toggled route's handler (changes on every registration)
  \* @type: Str -> <<Bool, Int>>;
  view,    \* what a reader's walk found: <<found, generation>>
  \* @type: Str -> Str;
  reply    \* last reply of a reader
vars == <<pc, wl, rl, acc, left, live, gen, view, reply>>

Init == /\ pc = [p \in Procs |-> "idle"] /\ wl = "none" /\ rl = {} /\ acc = [p \in Procs |-> "none"]
        /\ left = [p \in Procs |-> NOps] /\ live = FALSE /\ gen = 0
        /\ view = [p \in Procs |-> <<FALSE, 0>>] /\ reply = [p \in Procs |-> "-"]
Goto(p, x)  == pc' = [pc EXCEPT ![p] = x]
Begin(p, k) == acc' = [acc EXCEPT ![p] = k]
End(p)      == acc' = [acc EXCEPT ![p] = "none"]
Locked == Discipline = "intended"

\* ---------------- writer: Add (toggle on) / Remove (toggle off)
WStart(p) == /\ pc[p] = "idle" /\ left[p] > 0 /\ left' = [left EXCEPT ![p] = @ - 1]
             /\ Goto(p, IF Locked THEN "w_lock" ELSE "w_amb_b")       \* asBuilt: checkAmbiguous before Lock
             /\ UNCHANGED <<wl, rl, acc, live, gen, view, reply>>
WLock(p)  == /\ pc[p] = "w_lock" /\ wl = "none" /\ rl = {} /\ wl' = p
             /\ Goto(p, IF Locked THEN "w_amb_b" ELSE "w_mut_b") /\ UNCHANGED <<rl, acc, left, live, gen, view, reply>>
WAmbB(p)  == pc[p] = "w_amb_b" /\ Begin(p, "r") /\ Goto(p, "w_amb_e") /\ UNCHANGED <<wl, rl, left, live, gen, view, reply>>
WAmbE(p)  == /\ pc[p] = "w_amb_e" /\ End(p) /\ Goto(p, IF Locked THEN "w_mut_b" ELSE "w_lock")
             /\ UNCHANGED <<wl, rl, left, live, gen, view, reply>>
WMutB(p)  == pc[p] = "w_mut_b" /\ Begin(p, "w") /\ Goto(p, "w_mut_e") /\ UNCHANGED <<wl, rl, left, live, gen, view, reply>>
WMutE(p)  == /\ pc[p] = "w_mut_e" /\ End(p) /\ live' = ~live /\ gen' = (IF live THEN gen ELSE gen + 1)
             /\ Goto(p, "w_unlock") /\ UNCHANGED <<wl, rl, left, view, reply>>
WUnlock(p) == pc[p] = "w_unlock" /\ wl' = "none" /\ Goto(p, "idle") /\ UNCHANGED <<rl, acc, left, live, gen, view, reply>>

\* ---------------- reader: ServeHTTP = walk + handler-map lookup (+ AllowHeader at request time)
RStart(p)  == /\ pc[p] = "idle" /\ left[p] > 0 /\ left' = [left EXCEPT ![p] = @ - 1]
              /\ Goto(p, "r_lock") /\ UNCHANGED <<wl, rl, acc, live, gen, view, reply>>
RLock(p)   == pc[p] = "r_lock" /\ wl = "none" /\ rl' = rl \cup {p} /\ Goto(p, "r_walk_b") /\ UNCHANGED <<wl, acc, left, live, gen, view, reply>>
RWalkB(p)  == pc[p] = "r_walk_b" /\ Begin(p, "r") /\ Goto(p, "r_walk_e") /\ UNCHANGED <<wl, rl, left, live, gen, view, reply>>
RWalkE(p)  == /\ pc[p] = "r_walk_e" /\ End(p) /\ view' = [view EXCEPT ![p] = <<live, gen>>]
              /\ Goto(p, IF Locked THEN "r_look_b" ELSE "r_unlock") /\ UNCHANGED <<wl, rl, left, live, gen, reply>>
RUnlock(p) == /\ pc[p] = "r_unlock" /\ rl' = rl \ {p}
              /\ Goto(p, IF Locked THEN "r_allow_lock" ELSE "r_look_b") /\ UNCHANGED <<wl, acc, left, live, gen, view, reply>>
RLookB(p)  == pc[p] = "r_look_b" /\ Begin(p, "r") /\ Goto(p, "r_look_e") /\ UNCHANGED <<wl, rl, left, live, gen, view, reply>>
\* the handler-map read: a node found during the walk may have lost (or changed) its handlers meanwhile
RLookE(p)  == /\ pc[p] = "r_look_e" /\ End(p)
              /\ reply' = [reply EXCEPT ![p] = IF ~view[p][1] THEN "404"
                                               ELSE IF live /\ gen = view[p][2] THEN "200" ELSE "torn"]
              /\ Goto(p, IF Locked THEN "r_unlock" ELSE "r_allow_b") /\ UNCHANGED <<wl, rl, left, live, gen, view>>
\* AllowHeader()/Methods() called by the user's handler after Handler returned
RAllowLock(p) == pc[p] = "r_allow_lock" /\ wl = "none" /\ rl' = rl \cup {p} /\ Goto(p, "r_allow_b") /\ UNCHANGED <<wl, acc, left, live, gen, view, reply>>
RAllowB(p) == pc[p] = "r_allow_b" /\ Begin(p, "r") /\ Goto(p, "r_allow_e") /\ UNCHANGED <<wl, rl, left, live, gen, view, reply>>
RAllowE(p) == /\ pc[p] = "r_allow_e" /\ End(p) /\ rl' = rl \ {p} /\ Goto(p, "idle") /\ UNCHANGED <<wl, left, live, gen, view, reply>>

Next == \/ \E p \in Writers : WStart(p) \/ WLock(p) \/ WAmbB(p) \/ WAmbE(p) \/ WMutB(p) \/ WMutE(p) \/ WUnlock(p)
        \/ \E p \in Readers : RStart(p) \/ RLock(p) \/ RWalkB(p) \/ RWalkE(p) \/ RUnlock(p) \/ RLookB(p) \/ RLookE(p)
                              \/ RAllowLock(p) \/ RAllowB(p) \/ RAllowE(p)
Spec == Init /\ [][Next]_vars

\* ---------------- properties
\* no state in which a goroutine writes the tree while another one reads or writes it
RaceFree == \A p, q \in Procs : p # q => ~(acc[p] = "w" /\ acc[q] # "none")
LockOK == (wl # "none" => rl = {}) /\ (\A p \in Procs : acc[p] = "w" => wl = p)
\* every reply is one the router could have produced sequentially between call and return:
\* the toggled route answers 200 with the handler the walk saw, or 404 - never "node found, handler gone / foreign"
NoTornReply == \A p \in Readers : reply[p] # "torn"
=============================================================================
