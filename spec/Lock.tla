-------------------------------- MODULE Lock --------------------------------
(* C06 at design level: one WithLock(true) router seen by concurrent         *)
(* goroutines.  One action per critical section or tree access of the code;  *)
(* every access is split into a begin and an end step so that overlaps are   *)
(* representable states.  Discipline = "intended" is the locking the         *)
(* repaired code implements (binding: harness -race runs + Trace_Lin);       *)
(* "asBuilt" is the pinned code before the fix (handler map read after       *)
(* RUnlock, ambiguity pre-check / strict URL / AllowHeader outside the lock) *)
(* and is kept as a named deviation: TLC must find its counterexample.       *)
(* The lock is Go's sync.RWMutex: a writer that has asked for the lock blocks *)
(* NEW readers (ww), which is what makes a read section that asks for the     *)
(* read lock a second time deadlock - the third discipline, "recursiveRead"  *)
(* (a seeded change and, once, the verification hooks themselves did that).   *)
EXTENDS Naturals, Sequences, FiniteSets, TLC
\* (the @type comments are for Apalache, which discharges the inductive invariant of apalache/LockInd.tla; TLC ignores them)
CONSTANTS
  \* @type: Set(Str);
  Writers,
  \* @type: Set(Str);
  Readers,
  \* @type: Str;
  Discipline,
  \* @type: Int;
  NOps
Procs == Writers \cup Readers
VARIABLES
  \* @type: Str -> Str;
  pc,      \* program counter of every goroutine
  \* @type: Str;
  wl,      \* write-lock holder ("none")
  \* @type: Set(Str);
  rl,      \* set of read-lock holders
  \* @type: Set(Str);
  ww,      \* writers that have called Lock and wait for it (they block new readers)
  \* @type: Str -> Str;
  acc,     \* acc[p] \in {"none","r","w"}: p is inside an access to the tree right now
  \* @type: Str -> Int;
  left,    \* operations still to start
  \* @type: Bool;
  live,    \* the toggled route is registered (its node has handlers)
  \* @type: Int;
  gen,     \* generation of the toggled route's handler (changes on every registration)
  \* @type: Str -> <<Bool, Int>>;
  view,    \* what a reader's walk found: <<found, generation>>
  \* @type: Str -> Str;
  reply    \* last reply of a reader
vars == <<pc, wl, rl, ww, acc, left, live, gen, view, reply>>

Init == /\ pc = [p \in Procs |-> "idle"] /\ wl = "none" /\ rl = {} /\ ww = {} /\ acc = [p \in Procs |-> "none"]
        /\ left = [p \in Procs |-> NOps] /\ live = FALSE /\ gen = 0
        /\ view = [p \in Procs |-> <<FALSE, 0>>] /\ reply = [p \in Procs |-> "-"]
Goto(p, x)  == pc' = [pc EXCEPT ![p] = x]
Begin(p, k) == acc' = [acc EXCEPT ![p] = k]
End(p)      == acc' = [acc EXCEPT ![p] = "none"]
Locked == Discipline \in {"intended", "recursiveRead"}

\* ---------------- writer: Add (toggle on) / Remove (toggle off)
WStart(p) == /\ pc[p] = "idle" /\ left[p] > 0 /\ left' = [left EXCEPT ![p] = @ - 1]
             /\ Goto(p, IF Locked THEN "w_lock" ELSE "w_amb_b")       \* asBuilt: checkAmbiguous before Lock
             /\ UNCHANGED <<wl, rl, acc, live, gen, view, reply, ww>>
WLockReq(p) == pc[p] = "w_lock" /\ ww' = ww \cup {p} /\ Goto(p, "w_wait") /\ UNCHANGED <<wl, rl, acc, left, live, gen, view, reply>>
WLock(p)  == /\ pc[p] = "w_wait" /\ wl = "none" /\ rl = {} /\ wl' = p /\ ww' = ww \ {p}
             /\ Goto(p, IF Locked THEN "w_amb_b" ELSE "w_mut_b") /\ UNCHANGED <<rl, acc, left, live, gen, view, reply>>
WAmbB(p)  == pc[p] = "w_amb_b" /\ Begin(p, "r") /\ Goto(p, "w_amb_e") /\ UNCHANGED <<wl, rl, left, live, gen, view, reply, ww>>
WAmbE(p)  == /\ pc[p] = "w_amb_e" /\ End(p) /\ Goto(p, IF Locked THEN "w_mut_b" ELSE "w_lock")
             /\ UNCHANGED <<wl, rl, left, live, gen, view, reply, ww>>
WMutB(p)  == pc[p] = "w_mut_b" /\ Begin(p, "w") /\ Goto(p, "w_mut_e") /\ UNCHANGED <<wl, rl, left, live, gen, view, reply, ww>>
WMutE(p)  == /\ pc[p] = "w_mut_e" /\ End(p) /\ live' = ~live /\ gen' = (IF live THEN gen ELSE gen + 1)
             /\ Goto(p, "w_unlock") /\ UNCHANGED <<wl, rl, left, view, reply, ww>>
WUnlock(p) == pc[p] = "w_unlock" /\ wl' = "none" /\ Goto(p, "idle") /\ UNCHANGED <<rl, acc, left, live, gen, view, reply, ww>>

\* ---------------- reader: ServeHTTP = walk + handler-map lookup (+ AllowHeader at request time)
RStart(p)  == /\ pc[p] = "idle" /\ left[p] > 0 /\ left' = [left EXCEPT ![p] = @ - 1]
              /\ Goto(p, "r_lock") /\ UNCHANGED <<wl, rl, acc, live, gen, view, reply, ww>>
RLock(p)   == pc[p] = "r_lock" /\ wl = "none" /\ ww = {} /\ rl' = rl \cup {p} /\ Goto(p, "r_walk_b") /\ UNCHANGED <<wl, acc, left, live, gen, view, reply, ww>>
RWalkB(p)  == pc[p] = "r_walk_b" /\ Begin(p, "r") /\ Goto(p, "r_walk_e") /\ UNCHANGED <<wl, rl, left, live, gen, view, reply, ww>>
RWalkE(p)  == /\ pc[p] = "r_walk_e" /\ End(p) /\ view' = [view EXCEPT ![p] = <<live, gen>>]
              /\ Goto(p, IF Discipline = "recursiveRead" THEN "r_re_lock" ELSE IF Locked THEN "r_look_b" ELSE "r_unlock") /\ UNCHANGED <<wl, rl, left, live, gen, reply, ww>>
\* deviation "recursiveRead": the read section calls something that takes the read lock AGAIN (Node.Methods() under Handler's lock)
RReLock(p) == pc[p] = "r_re_lock" /\ wl = "none" /\ ww = {} /\ Goto(p, "r_look_b") /\ UNCHANGED <<wl, rl, ww, acc, left, live, gen, view, reply>>
RUnlock(p) == /\ pc[p] = "r_unlock" /\ rl' = rl \ {p}
              /\ Goto(p, IF Locked THEN "r_allow_lock" ELSE "r_look_b") /\ UNCHANGED <<wl, acc, left, live, gen, view, reply, ww>>
RLookB(p)  == pc[p] = "r_look_b" /\ Begin(p, "r") /\ Goto(p, "r_look_e") /\ UNCHANGED <<wl, rl, left, live, gen, view, reply, ww>>
\* the handler-map read: a node found during the walk may have lost (or changed) its handlers meanwhile
RLookE(p)  == /\ pc[p] = "r_look_e" /\ End(p)
              /\ reply' = [reply EXCEPT ![p] = IF ~view[p][1] THEN "404"
                                               ELSE IF live /\ gen = view[p][2] THEN "200" ELSE "torn"]
              /\ Goto(p, IF Locked THEN "r_unlock" ELSE "r_allow_b") /\ UNCHANGED <<wl, rl, left, live, gen, view, ww>>
\* AllowHeader()/Methods() called by the user's handler after Handler returned
RAllowLock(p) == pc[p] = "r_allow_lock" /\ wl = "none" /\ ww = {} /\ rl' = rl \cup {p} /\ Goto(p, "r_allow_b") /\ UNCHANGED <<wl, acc, left, live, gen, view, reply, ww>>
RAllowB(p) == pc[p] = "r_allow_b" /\ Begin(p, "r") /\ Goto(p, "r_allow_e") /\ UNCHANGED <<wl, rl, left, live, gen, view, reply, ww>>
RAllowE(p) == /\ pc[p] = "r_allow_e" /\ End(p) /\ rl' = rl \ {p} /\ Goto(p, "idle") /\ UNCHANGED <<wl, left, live, gen, view, reply, ww>>

Next == \/ \E p \in Writers : WStart(p) \/ WLockReq(p) \/ WLock(p) \/ WAmbB(p) \/ WAmbE(p) \/ WMutB(p) \/ WMutE(p) \/ WUnlock(p)
        \/ \E p \in Readers : RStart(p) \/ RLock(p) \/ RWalkB(p) \/ RWalkE(p) \/ RUnlock(p) \/ RLookB(p) \/ RLookE(p)
                              \/ RAllowLock(p) \/ RAllowB(p) \/ RAllowE(p) \/ RReLock(p)
Spec == Init /\ [][Next]_vars

\* ---------------- properties
\* no state in which a goroutine writes the tree while another one reads or writes it
RaceFree == \A p, q \in Procs : p # q => ~(acc[p] = "w" /\ acc[q] # "none")
LockOK == (wl # "none" => rl = {}) /\ (\A p \in Procs : acc[p] = "w" => wl = p)
\* every reply is one the router could have produced sequentially between call and return:
\* the toggled route answers 200 with the handler the walk saw, or 404 - never "node found, handler gone / foreign"
NoTornReply == \A p \in Readers : reply[p] # "torn"
\* nobody waits for ever: unless every goroutine has finished, some step is possible
AllDone == \A p \in Procs : pc[p] = "idle" /\ left[p] = 0
NoDeadlock == AllDone \/ ENABLED Next

\* ---------------- liveness (C06 "... never deadlock": beyond the absence of a stuck state, every goroutine finishes)
\* Under weak fairness of every goroutine's own steps all operations complete: a writer that has asked for the lock
\* blocks NEW readers (ww), so it gets the lock once the current readers have left; NOps is finite, so readers get in
\* once the writers are done.  Under "recursiveRead" the property fails (the deadlock is also a liveness failure).
PStep(p) == \/ p \in Writers /\ (WStart(p) \/ WLockReq(p) \/ WLock(p) \/ WAmbB(p) \/ WAmbE(p) \/ WMutB(p) \/ WMutE(p) \/ WUnlock(p))
            \/ p \in Readers /\ (RStart(p) \/ RLock(p) \/ RWalkB(p) \/ RWalkE(p) \/ RUnlock(p) \/ RLookB(p) \/ RLookE(p)
                                 \/ RAllowLock(p) \/ RAllowB(p) \/ RAllowE(p) \/ RReLock(p))
FairSpec == Spec /\ \A p \in Procs : WF_vars(PStep(p))
Termination == <>[]AllDone
\* a writer that has asked for the lock gets it (no writer starvation by a stream of readers)
WriterProgress == \A p \in Writers : (pc[p] = "w_wait") ~> (wl = p)
=============================================================================
