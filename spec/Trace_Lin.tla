------------------------------ MODULE Trace_Lin ------------------------------
(* C06 / C07: linearizability validation of histories recorded from real     *)
(* goroutines.  Every operation is bracketed by call / ret events numbered by *)
(* one atomic counter; the specification applies each operation atomically at *)
(* an internal Lin step somewhere between its call and its ret, and the       *)
(* recorded reply must be the one the sequential specification (RouterOps /   *)
(* Matchers) prescribes at that instant.  A trace is accepted iff SOME choice *)
(* of Lin points consumes it to the end (TRACE-END is printed); the highest   *)
(* line reached is kept in TLC register 1 for diagnostics (-workers 1).       *)
(* enter / exit events bracket the time a request context is in use: no two   *)
(* in-flight requests may be handed the same context (C07, pooled contexts).  *)
EXTENDS Matchers, Json
CONSTANTS File, Props
Trace == ndJsonDeserialize(File)
VARIABLES rs,     \* instance name -> router value (a Hosts matcher is a route table too)
          cfg,    \* configuration of the case
          pend,   \* goroutine -> [o, done, rep]
          inuse,  \* contexts currently inside a handler
          l
vars == <<rs, cfg, pend, inuse, l>>
Ev == Trace[l]
Check(id, cond, info) ==
  IF id \notin Props THEN TRUE
  ELSE IF cond THEN TRUE
  ELSE PrintT("MISMATCH " \o ToJson([id |-> id, line |-> l, info |-> info]))
Put(f, k, v) == [x \in DOMAIN f \cup {k} |-> IF x = k THEN v ELSE f[x]]
Del(f, k) == [x \in DOMAIN f \ {k} |-> f[x]]

ASSUME TLCSet(1, 0)
Mark(n) == TLCSet(1, IF n > TLCGet(1) THEN n ELSE TLCGet(1))

Init == rs = <<>> /\ cfg = <<>> /\ pend = <<>> /\ inuse = {} /\ l = 1

TrReset == /\ l <= Len(Trace) /\ Ev.ev = "reset" /\ pend = <<>>
           /\ rs' = <<>> /\ cfg' = Ev.cfg /\ pend' = <<>> /\ inuse' = {} /\ l' = l + 1
TrFault == /\ l <= Len(Trace) /\ Ev.ev = "fault"
           /\ Check("C06", FALSE, <<"fault", Ev.kind, Ev.detail>>) /\ Check("C07", FALSE, <<"fault", Ev.kind, Ev.detail>>)
           /\ Check("C16", FALSE, <<"fault", Ev.kind, Ev.detail>>)      \* after a recovered panic later (overlapping) requests must be served normally
           /\ UNCHANGED <<rs, cfg, pend, inuse>> /\ l' = l + 1

Call == /\ l <= Len(Trace) /\ Ev.ev = "call" /\ Ev.g \notin DOMAIN pend
        /\ pend' = Put(pend, Ev.g, [o |-> Ev.o, done |-> FALSE, rep |-> <<>>])
        /\ UNCHANGED <<rs, cfg, inuse>> /\ l' = l + 1

IsHosts(n) == Ch(n, 1) = "h"
RCfgOf(n) == IF IsHosts(n) THEN HostsCfg ELSE [name |-> n, trace |-> cfg.trace, icpt |-> cfg.icpt, domain |-> cfg.domain]
\* the effect and the prescribed reply of one operation applied atomically: a SET of [rs, rep] (verdicts may be open)
Effects(o) ==
  LET n == o.inst
      R0 == IF n \in DOMAIN rs THEN rs[n] ELSE NewRouter(RCfgOf(n))
  IN CASE o.op = "new" -> {[rs |-> Put(rs, n, NewRouter(RCfgOf(n))), rep |-> [res |-> "ok"]]}
       [] o.op = "handle" -> {[rs |-> IF v = "ok" THEN Put(rs, n, DoHandle(R0, o.pat, o.h, <<>>, o.methods)) ELSE rs, rep |-> [res |-> v]]
                               : v \in HandleVerdicts(R0, o.pat, o.methods, TRUE)}
       [] o.op = "remove" -> {[rs |-> Put(rs, n, DoRemove(R0, o.pat, o.methods)), rep |-> [res |-> "ok"]]}
       [] o.op = "clean"  -> {[rs |-> Put(rs, n, DoClean(R0, o.prefix)), rep |-> [res |-> "ok"]]}
       [] o.op = "routes" -> {[rs |-> rs, rep |-> [res |-> "ok", routes |-> Routes(R0)]]}
       [] o.op = "url"    -> {[rs |-> rs, rep |-> [res |-> "ok", url |-> URLResult(R0, o.strict, o.pat, o.params, TRUE)]]}
       [] o.op = "serve"  -> {[rs |-> rs, rep |-> [res |-> "ok", outs |-> ServeOutcomes(R0, o.method, o.path), R |-> R0, later |-> {},
                                                   canon |-> R0.addOnly \/ WitValid(R0, o.wit, o.wps, o.path) \/ o.path \in {"*", ""}]]}      \* (the root entry has one outcome in every history)
       \* a quiescent group (routers g?a: Hosts a.com, g?b: path version v1): the reply is fixed by the request alone
       [] o.op = "gserve" -> {[rs |-> rs, rep |-> [res |-> "ok",
                                 want |-> IF o.host = "a.com" THEN [rname |-> o.inst \o "a", urlPath |-> o.path]
                                          ELSE IF HasPrefix(o.path, "/v1/") THEN [rname |-> o.inst \o "b", urlPath |-> Drop(o.path, 3)]
                                          ELSE IF HasPrefix(o.path, "/v2/") THEN [rname |-> o.inst \o "c", urlPath |-> Drop(o.path, 3)]
                                          ELSE [rname |-> "", urlPath |-> o.path]]]}
       [] o.op = "hadd"   -> LET d == Lower(o.domains[1]) IN
                             {[rs |-> IF v = "ok" THEN Put(rs, n, DoHandle(R0, d, "d", <<>>, <<"GET">>)) ELSE rs, rep |-> [res |-> v]]
                               : v \in HandleVerdicts(R0, d, <<"GET">>, TRUE)}
       [] o.op = "hdelete" -> {[rs |-> Put(rs, n, DoRemove(R0, Lower(o.pat), <<>>)), rep |-> [res |-> "ok"]]}
       [] o.op = "hmatch" -> {[rs |-> rs, rep |-> [res |-> "ok", hm |-> HostsMatch(R0, o.host),
                                                   canon |-> R0.addOnly \/ WitValid(R0, o.wit, o.wps, NormHost(o.host))]]}

Lin(g) == /\ g \in DOMAIN pend /\ ~pend[g].done
          /\ \E e \in Effects(pend[g].o) :
                /\ rs' = e.rs
                \* a request is TWO reads of the table: the dispatch (its linearization point) and, when the 405 / OPTIONS handler
                \* runs, Node.AllowHeader() - a separate read section (Lock.tla: r_allow_*). Every table the instance goes
                \* through while the request is still running is remembered, the Allow header may stem from any of them.
                /\ pend' = [h \in DOMAIN pend |->
                              IF h = g THEN [o |-> pend[g].o, done |-> TRUE, rep |-> e.rep]
                              ELSE IF pend[h].done /\ pend[h].o.op = "serve" /\ pend[h].o.inst \in DOMAIN e.rs
                                   THEN [pend[h] EXCEPT !.rep.later = @ \cup {e.rs[pend[h].o.inst]}]
                                   ELSE pend[h]]
          /\ UNCHANGED <<cfg, inuse, l>>

OnlyX(want) == want.rname # "" /\ HasSuffix(want.rname, "c") /\ want.urlPath # "/x"
\* does the recorded result r equal the reply prescribed at the Lin point?
Matches(o, rep, r) ==
  /\ r.res = rep.res
  /\ CASE o.op = "routes" -> DOMAIN r.val \ {"*"} = DOMAIN rep.routes /\ \A p \in DOMAIN rep.routes : ToSet(r.val[p]) = rep.routes[p]
       [] o.op = "url"    -> rep.url.free \/ (r.ok = rep.url.ok /\ (r.ok => r.val = rep.url.val))
       [] o.op = "serve"  -> /\ r.r.panic = "none"
                             /\ rep.canon => \E x \in rep.outs : (IF x.kind = "rootopt" THEN "opt" ELSE IF x.kind = "root405" THEN "405" ELSE x.kind) = r.r.kind
                                                                 /\ x.h = r.r.h /\ x.pat = r.r.pat /\ x.params = r.r.params
                                                                 /\ (x.kind = "rootopt" => \E Rx \in {rep.R} \cup rep.later : RootAllowOK(Rx, ToSet(r.r.allowH)))
                                                                 /\ (x.kind \in {"opt", "405"} =>
                                                                        \E Rx \in {rep.R} \cup rep.later : x.pat \in Live(Rx) /\ ToSet(r.r.allowH) = AllowSet(Rx, x.pat))
       [] o.op = "gserve" -> /\ r.r.panic = "none" /\ r.r.rname = rep.want.rname /\ r.r.urlPath = rep.want.urlPath
                             /\ (rep.want.rname = "" => r.r.kind = "gnf")
                             \* router g?c serves /x only: anything else is ITS 404
                             /\ (OnlyX(rep.want) => r.r.kind = "404")
                             /\ ((rep.want.rname # "" /\ ~OnlyX(rep.want))
                                   => (r.r.kind = "route" /\ r.r.h = rep.want.rname \o ":" \o (IF rep.want.urlPath = "/x" THEN "/x" ELSE "/{rest}")
                                                          /\ (rep.want.urlPath # "/x" => "rest" \in DOMAIN r.r.params /\ r.r.params["rest"] = Drop(rep.want.urlPath, 1))))
       [] o.op = "hmatch" -> rep.canon => (r.ok = rep.hm.ok /\ (r.ok => \E x \in rep.hm.outs : x[2] = r.params))
       [] OTHER -> TRUE

Ret == /\ l <= Len(Trace) /\ Ev.ev = "ret" /\ Ev.g \in DOMAIN pend /\ pend[Ev.g].done
       /\ Matches(pend[Ev.g].o, pend[Ev.g].rep, Ev.r)
       /\ pend' = Del(pend, Ev.g)
       /\ UNCHANGED <<rs, cfg, inuse>> /\ l' = l + 1

Enter == /\ l <= Len(Trace) /\ Ev.ev = "enter" /\ Ev.ctx \notin inuse
         /\ inuse' = inuse \cup {Ev.ctx} /\ UNCHANGED <<rs, cfg, pend>> /\ l' = l + 1
Exit  == /\ l <= Len(Trace) /\ Ev.ev = "exit"
         /\ inuse' = inuse \ {Ev.ctx} /\ UNCHANGED <<rs, cfg, pend>> /\ l' = l + 1

Next == /\ (TrReset \/ TrFault \/ Call \/ Ret \/ Enter \/ Exit \/ \E g \in DOMAIN pend : Lin(g))
        /\ Mark(l')
        /\ (l' > Len(Trace) => PrintT("TRACE-END " \o ToString(Len(Trace))))
Spec == Init /\ [][Next]_vars
HighWater == PrintT("HIGHWATER " \o ToString(TLCGet(1)))
=============================================================================
