------------------------------- MODULE Params -------------------------------
(* C20: the request context as a map key -> string with Set / Delete / Reset, *)
(* the pool (NewContext always starts empty), and the accessors as RELATIONS   *)
(* to a logged strconv answer (numeric parsing itself is not modelled).        *)
EXTENDS Str, Json
CONSTANTS Keys, Vals, Depth, EmitAll
VARIABLES ps, hist
vars == <<ps, hist>>
viewP == ps

PSet(m, k, v) == [x \in DOMAIN m \cup {k} |-> IF x = k THEN v ELSE m[x]]
PDel(m, k)    == [x \in DOMAIN m \ {k} |-> m[x]]

\* what every accessor must report for key k; sc = logged strconv answers for the stored text
\* obs = [count, range, get, exists, str, mustStr, int, mustInt, uint, mustUint, bool, mustBool, float, mustFloat]
NumOK(m, k, got, must, sc, def) ==
  IF k \in DOMAIN m
  THEN /\ got.err = (IF sc.ok THEN "none" ELSE "other") /\ got.v = sc.v      \* strconv's value also on error (clamped on range errors)
       /\ must = (IF sc.ok THEN sc.v ELSE def)
  ELSE got.err = "notexists" /\ must = def
AccessOK(m, k, o) ==
  /\ o.count = Cardinality(DOMAIN m)
  /\ o.range = m
  /\ o.exists = (k \in DOMAIN m)
  /\ o.get = [v |-> IF k \in DOMAIN m THEN m[k] ELSE "", ok |-> k \in DOMAIN m]
  /\ o.str = [v |-> IF k \in DOMAIN m THEN m[k] ELSE "", err |-> IF k \in DOMAIN m THEN "none" ELSE "notexists"]
  /\ o.mustStr = (IF k \in DOMAIN m THEN m[k] ELSE "DEF")
  /\ (k \in DOMAIN m => o.sc.val = m[k])
  /\ NumOK(m, k, o.int, o.mustInt, o.sc.int, "4242")
  /\ NumOK(m, k, o.uint, o.mustUint, o.sc.uint, "4242")
  /\ NumOK(m, k, o.bool, o.mustBool, o.sc.bool, "true")
  /\ NumOK(m, k, o.float, o.mustFloat, o.sc.float, "42.5")

\* ---------------------------------------------------------------- generator
Ops == {[op |-> "set", key |-> k, val |-> v] : k \in Keys, v \in Vals} \cup {[op |-> "del", key |-> k] : k \in Keys}
       \cup {[op |-> "reset"], [op |-> "recycle"], [op |-> "fill", n |-> 35], [op |-> "stale"]}
       \* two calls with no observation in between (an accessor that caches must notice both)
       \cup {[op |-> "delset", key |-> k1, key2 |-> k2, val |-> "7"] : k1, k2 \in Keys}
\* stale: Destroy, then a Set through the OLD pointer (a late writer), then NewContext - which must still start empty
\* fill: n Set calls with keys f1 .. fn (more parameters than any pattern of the test-suite captures)
RECURSIVE Fill(_, _)
Fill(m, n) == IF n = 0 THEN m ELSE Fill(PSet(m, "f" \o ToString(n), "v"), n - 1)
Apply(m, o) == CASE o.op = "set" -> PSet(m, o.key, o.val) [] o.op = "del" -> PDel(m, o.key) [] o.op = "fill" -> Fill(m, o.n)
                 [] o.op = "delset" -> PSet(PDel(m, o.key), o.key2, o.val) [] OTHER -> <<>>
Init == ps = <<>> /\ hist = <<>>
Next == Len(hist) < Depth /\ \E o \in Ops : ps' = Apply(ps, o) /\ hist' = Append(hist, o)
Spec == Init /\ [][Next]_vars
\* Set and Delete behave as on a map; a recycled context is empty
MapLaws == /\ \A k \in Keys, v \in Vals : PSet(ps, k, v)[k] = v /\ PDel(PSet(ps, k, v), k) = PDel(ps, k) /\ DOMAIN PDel(ps, k) = DOMAIN ps \ {k}
           /\ (hist # <<>> /\ hist[Len(hist)].op \in {"reset", "recycle", "stale"}) => ps = <<>>
Emit == (Len(hist) > 0 /\ (EmitAll \/ Len(hist) = Depth)) => PrintT("CASE " \o ToJson([fam |-> "params", ops |-> hist, keys |-> Keys]))
=============================================================================
