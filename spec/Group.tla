-------------------------------- MODULE Group --------------------------------
(* C13 / C16: a Group of routers with matchers, as a value G and operators,  *)
(* plus standalone routers (for the Router half of C16).                      *)
(*   G = [rs : name -> R, rrec : name -> BOOLEAN, order : seq of names in the *)
(*        group, mt : name -> matcher, guse : seq of mw, rec : BOOLEAN]       *)
EXTENDS Matchers

NewGroup(rec) == [rs |-> <<>>, rrec |-> <<>>, order |-> <<>>, mt |-> <<>>, guse |-> <<>>, rec |-> rec]
InGroup(G, n) == n \in ToSet(G.order)
Put(f, k, v) == [x \in DOMAIN f \cup {k} |-> IF x = k THEN v ELSE f[x]]

\* a standalone router (NewRouter)
GRouter(G, n, cfg, rec) == [G EXCEPT !.rs = Put(G.rs, n, NewRouter(cfg)), !.rrec = Put(G.rrec, n, rec)]
\* Group.Add(matcher, r): rejected when the name is taken; the router receives the group's middlewares
GAddOK(G, n) == n \in DOMAIN G.rs /\ ~InGroup(G, n)
GAdd(G, n, m) == [G EXCEPT !.order = Append(G.order, n), !.mt = Put(G.mt, n, m), !.rs = Put(G.rs, n, DoUse(G.rs[n], G.guse))]
\* Group.New(name, matcher, o...): a router with the group's options (later options override), then Add
GNewOK(G, n) == ~InGroup(G, n)
GNew(G, n, m, cfg, rec) == GAdd(GRouter(G, n, cfg, rec), n, m)
GRemove(G, n) == [G EXCEPT !.order = SelectSeq(G.order, LAMBDA x : x # n)]
GUse(G, mws) == [G EXCEPT !.guse = G.guse \o mws,
                          !.rs = [x \in DOMAIN G.rs |-> IF InGroup(G, x) THEN DoUse(G.rs[x], mws) ELSE G.rs[x]]]

\* ---------------------------------------------------------------- ops as replayed (generator and trace share this)
RCfg(c) == [name |-> c.name, trace |-> c.trace, icpt |-> c.icpt, domain |-> ""]
\* which recovery function guards a router: "" none, "R" its own option, "G" inherited from the group
RecOf(c) == IF c.recovery THEN "R" ELSE ""
ApplyGOp(G, o) ==
  CASE o.op = "router" -> [g |-> GRouter(G, o.inst, RCfg(o.cfg), RecOf(o.cfg)), res |-> "ok"]
    [] o.op = "gadd"   -> IF GAddOK(G, o.inst) THEN [g |-> GAdd(G, o.inst, o.m), res |-> "ok"] ELSE [g |-> G, res |-> "rej"]
    [] o.op = "gnew"   -> IF GNewOK(G, o.inst)
                          THEN [g |-> GNew(G, o.inst, o.m, RCfg(o.cfg), IF o.cfg.recovery THEN "R" ELSE IF G.rec THEN "G" ELSE ""), res |-> "ok"]
                          ELSE [g |-> G, res |-> "rej"]
    [] o.op = "gremove" -> [g |-> GRemove(G, o.inst), res |-> "ok"]
    [] o.op = "guse"   -> [g |-> GUse(G, o.mws), res |-> "ok"]
    [] o.op = "handle" -> [g |-> [G EXCEPT !.rs = Put(G.rs, o.inst, DoHandle(G.rs[o.inst], o.pat, o.inst \o ":" \o o.pat, o.mws, o.methods))], res |-> "ok"]
    [] o.op = "use"    -> [g |-> [G EXCEPT !.rs = Put(G.rs, o.inst, DoUse(G.rs[o.inst], o.mws))], res |-> "ok"]

\* ---------------------------------------------------------------- serving
\* req = [method, path, host, accept]; env = [mime]
RECURSIVE FirstAccepting(_, _, _, _)
FirstAccepting(G, req, env, i) ==
  IF i > Len(G.order) THEN 0
  ELSE IF \E r \in Eval(G.mt[G.order[i]], req, req.path, <<>>, env) : r.ok THEN i ELSE FirstAccepting(G, req, env, i + 1)

GnfReply(G, req) == [kind |-> "gnf", h |-> "", pat |-> "", params |-> <<>>, allow |-> {}, order |-> Reverse(G.guse),
                     rname |-> "", urlPath |-> req.path]
\* replies of router n for the request the matcher produced (path, captured parameters)
RouterReplies(G, n, req, path, ps) ==
  {[o EXCEPT !.params = o.params @@ ps] @@ [rname |-> n, urlPath |-> path] : o \in ServeOutcomes(G.rs[n], req.method, path)}
GServeOutcomes(G, req, env) ==
  LET i == FirstAccepting(G, req, env, 1) IN
  IF i = 0 THEN {GnfReply(G, req)}
  ELSE UNION {RouterReplies(G, G.order[i], req, r.path, r.ps) : r \in {x \in Eval(G.mt[G.order[i]], req, req.path, <<>>, env) : x.ok}}
RServeOutcomes(G, n, req) == RouterReplies(G, n, req, req.path, <<>>)

\* ---------------------------------------------------------------- C16: faults
\* sites in execution order: every middleware layer (outermost first), then the handler
Sites(reply) == [i \in 1..Len(reply.order) |-> "mw:" \o reply.order[i]] \o <<"h:" \o (IF reply.kind \in {"rootopt"} THEN "opt" ELSE IF reply.kind = "root405" THEN "405" ELSE reply.kind)>>
RECURSIVE FirstFault(_, _, _)
FirstFault(sites, faults, i) == IF i > Len(sites) THEN 0 ELSE IF sites[i] \in DOMAIN faults THEN i ELSE FirstFault(sites, faults, i + 1)
\* [fired, value, site index]
FaultOf(reply, faults) == LET s == Sites(reply)  i == FirstFault(s, faults, 1)
                          IN IF i = 0 THEN [fired |-> FALSE, val |-> "", at |-> 0] ELSE [fired |-> TRUE, val |-> faults[s[i]], at |-> i]
\* does a recovery function guard this reply?  router-served: the router's own option; group not-found: the group's
Guard(G, reply) == IF reply.kind = "gnf" THEN (IF G.rec THEN "G" ELSE "") ELSE G.rrec[reply.rname]
=============================================================================
