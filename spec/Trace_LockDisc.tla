--------------------------- MODULE Trace_LockDisc ---------------------------
(* C06, binding 2: the lock-discipline trace.  Every public call of a        *)
(* WithLock(true) router, executed by ONE goroutine on a build with the      *)
(* verif access hooks, reports for each tree access its site, whether it     *)
(* writes, and the lock mode actually held (none / R / W).  The region       *)
(* structure of Lock.tla's intended discipline prescribes:                   *)
(*   mutating calls (Handle, Remove, Clean, Use): EVERY access - also their  *)
(*     reads, so that check and act are one critical section - under W;      *)
(*   observers (ServeHTTP incl. AllowHeader at request time, Routes, URL):   *)
(*     every access under R (or W), and never a write.                       *)
(* This transfers the exhaustive interleaving result of Lock.tla to the      *)
(* hooked sites; accesses a change adds without a hook are not seen here     *)
(* (the -race runs of binding 1 remain the primary detector).                *)
EXTENDS Str, Json
CONSTANTS File, Props
Trace == ndJsonDeserialize(File)
VARIABLE l
Ev == Trace[l]
Check(id, cond, info) ==
  IF id \notin Props THEN TRUE
  ELSE IF cond THEN TRUE
  ELSE PrintT("MISMATCH " \o ToJson([id |-> id, line |-> l, info |-> info]))
MutOps == {"handle", "remove", "clean", "use"}
Sites(acc) == {acc[i].site : i \in 1..Len(acc)}
\* hooks every call of that kind must report (a missing one is DRIFT of the instrumentation, not a verdict)
Expected(ev) == CASE ev.op = "handle" /\ ev.res = "ok" -> {"add.check", "add.mutate"}
                  [] ev.op = "remove" -> {"remove.find"}
                  [] ev.op = "clean"  -> {"clean.mutate"}
                  [] ev.op = "use"    -> {"use.mutate"}
                  [] ev.op = "serve"  -> {"handler.walk"}
                  [] ev.op = "routes" -> {"routes.walk"}
                  [] ev.op = "url"    -> {"url.find"}
                  [] OTHER -> {}
Init == l = 1
TrReset == Ev.ev = "xreset"
TrOp ==
  /\ Ev.ev = "lockop"
  /\ LET acc == Ev.acc IN
     /\ Check("C06", \A i \in 1..Len(acc) : acc[i].write => acc[i].mode = "W", <<"write access without the write lock", Ev.op, Ev.detail, acc>>)
     /\ Check("C06", Ev.op \in MutOps => \A i \in 1..Len(acc) : acc[i].mode = "W",
              <<"a mutating call reads the tree outside its write-locked section", Ev.op, Ev.detail, acc>>)
     /\ Check("C06", Ev.op \notin MutOps => \A i \in 1..Len(acc) : acc[i].mode \in {"R", "W"} /\ ~acc[i].write,
              <<"an observer touches the tree without the read lock", Ev.op, Ev.detail, acc>>)
     /\ IF Expected(Ev) \subseteq Sites(acc) THEN TRUE ELSE PrintT("DRIFT " \o ToJson([line |-> l, op |-> Ev.op, missing |-> Expected(Ev) \ Sites(acc)]))
Next == /\ l <= Len(Trace) /\ l' = l + 1
        /\ (TrReset \/ TrOp)
        /\ (l' > Len(Trace) => PrintT("TRACE-END " \o ToString(Len(Trace))))
Spec == Init /\ [][Next]_l
=============================================================================
