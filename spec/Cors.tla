-------------------------------- MODULE Cors --------------------------------
(* C11 / C12: the CORS decision as a function of the configuration, the     *)
(* request and what the router found for it (DESIGN section 6.2).            *)
(*   cfg  = [on, origins, allow, expose, maxage, cred]   (sequences of strings) *)
(*   req  = [method, path, origin, acrm, acrh]           ("" = header absent)    *)
(*   resp = [acao, acac, aceh, acam, acah, acma, vary]   (sequences of header values) *)
EXTENDS Str, Integers

Deny(cfg)      == ~cfg.on \/ Len(cfg.origins) = 0
AnyOrigin(cfg) == "*" \in ToSet(cfg.origins)
AnyHeader(cfg) == "*" \in ToSet(cfg.allow)
\* a configuration NewRouter must refuse
ConfigBad(cfg) == cfg.on /\ ((AnyOrigin(cfg) /\ cfg.cred) \/ cfg.maxage < -1)

Preflight(req) == req.method = "OPTIONS" /\ req.acrm # "" /\ req.path # "*"

Tokens(s) == LET parts == SplitOn(s, ",") IN [i \in 1..Len(parts) |-> Trim(parts[i])]
ReqHeaders(req) == IF Trim(req.acrh) = "" THEN <<>> ELSE Tokens(req.acrh)
OddList(req) == \E i \in 1..Len(ReqHeaders(req)) : ReqHeaders(req)[i] = ""       \* "a,,b": the statement is silent
HeadersAllowed(cfg, req) ==
  AnyHeader(cfg) \/ \A i \in 1..Len(ReqHeaders(req)) : \E j \in 1..Len(cfg.allow) : EqFold(cfg.allow[j], ReqHeaders(req)[i])

OriginGranted(cfg, req) == AnyOrigin(cfg) \/ req.origin \in ToSet(cfg.origins)
GrantedOrigin(cfg, req) == IF AnyOrigin(cfg) THEN "*" ELSE req.origin

\* served: the router found a handler for the method (not 404 / 405); allow: the route's Allow set
Granted(cfg, req, served, allow) ==
  /\ ~Deny(cfg) /\ served
  /\ Preflight(req) => (req.acrm \in allow /\ HeadersAllowed(cfg, req))
  /\ OriginGranted(cfg, req)

One(seq, v) == seq = <<v>>
TokSet(seq) == UNION {ToSet(Tokens(seq[i])) : i \in 1..Len(seq)}
LowerSet(S) == {Lower(x) : x \in S}

\* C11: never more than configured
C11_NoMore(cfg, req, served, allow, resp) ==
  /\ resp.acao # <<>> => /\ Len(resp.acao) = 1
                         /\ \/ (resp.acao[1] = "*" /\ AnyOrigin(cfg))
                            \/ (resp.acao[1] = req.origin /\ req.origin \in ToSet(cfg.origins))
  /\ resp.acac # <<>> => /\ cfg.cred /\ resp.acac = <<"true">>
                         /\ resp.acao = <<req.origin>> /\ req.origin \in ToSet(cfg.origins)
  /\ (Deny(cfg) \/ ~served) => resp.acao = <<>>
  /\ (Preflight(req) /\ ~OddList(req) /\ (req.acrm \notin allow \/ ~HeadersAllowed(cfg, req))) => resp.acao = <<>>

\* C12: exactly what was configured, for requests the configuration allows
C12_Exact(cfg, req, served, allow, resp) ==
  LET pre == Preflight(req)
      g   == Granted(cfg, req, served, allow)
      sendsAH == Len(cfg.allow) > 0
      varyLo == (IF g /\ ~AnyOrigin(cfg) THEN {"origin"} ELSE {})
                \cup (IF g /\ pre THEN {"access-control-request-method"} ELSE {})
                \cup (IF g /\ pre /\ sendsAH THEN {"access-control-request-headers"} ELSE {})
      varyHi == {"origin", "access-control-request-method", "access-control-request-headers"}
  IN IF OddList(req) /\ pre THEN TRUE ELSE
     /\ g => /\ One(resp.acao, GrantedOrigin(cfg, req))
             /\ resp.acac = (IF cfg.cred THEN <<"true">> ELSE <<>>)
             /\ IF Len(cfg.expose) = 0 THEN resp.aceh = <<>> ELSE TokSet(resp.aceh) = ToSet(cfg.expose)
     /\ (g /\ pre) => /\ Len(resp.acam) = 1 /\ TokSet(resp.acam) = allow
                      /\ IF ~sendsAH THEN resp.acah = <<>>
                         ELSE IF AnyHeader(cfg) THEN "*" \in TokSet(resp.acah)
                         ELSE TokSet(resp.acah) = ToSet(cfg.allow)
                      /\ resp.acma = (IF cfg.maxage = 0 THEN <<>> ELSE <<ToString(cfg.maxage)>>)
     /\ ~pre => (resp.acam = <<>> /\ resp.acah = <<>> /\ resp.acma = <<>>)
     /\ (g \/ ~pre) => (varyLo \subseteq LowerSet(TokSet(resp.vary)) /\ LowerSet(TokSet(resp.vary)) \subseteq varyHi)
=============================================================================
