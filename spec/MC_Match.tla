------------------------------ MODULE MC_Match ------------------------------
(* Generators / design-level checks for C14 (Hosts histories) and C15.        *)
EXTENDS Matchers, Json
CONSTANTS Mode, Depth, PathLen
VARIABLES st, hist
vars == <<st, hist>>

\* ---------------------------------------------------------------- C14
LitD == <<"a.example.com", "b.example.com", "c.example.com", "d.example.com", "e.example.com", "f.example.com", "g.example.com">>
BaseH1 == LitD \o <<"{sub}.example.com", "{sub:\\w+}.b.com", "::1">>
BaseH2 == <<"{sub}.example.com", "a.example.com", "b.example.com", "c.example.com", "d.example.com", "e.example.com">>
BaseH3 == <<"api.example.com", "{n:digit}.c.com">>
HNew(ds)  == [op |-> "hnew", domains |-> ds, flag |-> FALSE]
HIc(r, c) == [op |-> "hicpt", key |-> r, val |-> c]
HAddOp(d) == [op |-> "hadd", domains |-> <<d>>]
HDel(d)   == [op |-> "hdelete", pat |-> d]
HM(host, wit, wps) == [op |-> "hmatch", host |-> host, pat |-> wit, params |-> wps]
BasesH == {<<HNew(<<>>), HIc("digit", "digit"), HAddOp("a.example.com")>> \o [i \in 1..Len(BaseH1) - 1 |-> HAddOp(BaseH1[i + 1])],
           <<HNew(BaseH2)>>, <<HNew(<<>>), HIc("digit", "digit")>> \o [i \in 1..Len(BaseH3) |-> HAddOp(BaseH3[i])]}
HOpsH == {HAddOp(d) : d \in {"h.example.com", "API.Example.com", "{sub}.example.com", "{id}.example.com", "{n:digit}.c.com", "a.example.com", "{Sub:\\w+}.B.com"}}
         \cup {HDel(d) : d \in {"a.example.com", "A.EXAMPLE.COM", "f.example.com", "{sub}.example.com", "{SUB}.Example.com", "zz.example.com", "::1", "api.example.com"}}
\* (a port is ':' followed by digits only, any number of them - the rule the implementation documents, net/url's)
Forms(h, wit, wps) == {HM(h, wit, wps), HM(h \o ":80", wit, wps), HM(h \o ":", wit, wps), HM(h \o ":8x", "", <<>>), HM(h \o ":65536", wit, wps), HM(h \o ":0100000", wit, wps)}
ProbesH == UNION {Forms(d, d, <<>>) : d \in ToSet(LitD) \cup {"api.example.com", "h.example.com"}}
           \cup Forms("A.EXAMPLE.COM", "a.example.com", <<>>) \cup Forms("F.Example.Com", "f.example.com", <<>>)
           \cup Forms("7q.example.com", "{sub}.example.com", [sub |-> "7q"]) \cup Forms("7Q.EXAMPLE.com", "{sub}.example.com", [sub |-> "7q"])
           \cup Forms("7q.example.com", "{id}.example.com", [id |-> "7q"])
           \cup Forms("7q8.b.com", "{sub:\\w+}.b.com", [sub |-> "7q8"]) \cup Forms("77.c.com", "{n:digit}.c.com", [n |-> "77"])
           \cup {HM("[v6].example.com", "{sub}.example.com", [sub |-> "[v6]"]), HM("[::1]", "::1", <<>>), HM("[::1]:80", "::1", <<>>), HM("[::1]:65536", "::1", <<>>), HM("::1", "", <<>>), HM("[::1]:8x", "", <<>>), HM("[::1]8080", "", <<>>), HM("[::1]:80:90", "", <<>>),
                 HM("[a.example.com]:80", "a.example.com", <<>>), HM("[7q.example.com]", "{sub}.example.com", [sub |-> "7q"]), HM("[a.example.com]x", "", <<>>), HM("a.example.com]", "", <<>>), HM("7.q.b.com", "", <<>>), HM("7q.c.com", "", <<>>),
                 HM("", "", <<>>), HM(":8080", "", <<>>), HM(":", "", <<>>), HM("ab.example.com", "{sub}.example.com", [sub |-> "ab"]), HM("*", "", <<>>), HM("example.com", "", <<>>), HM(".example.com", "", <<>>), HM("zz.example.com.", "", <<>>)}

\* ---------------------------------------------------------------- C15
VerPool == {"v1", "v11", "/v1", "v1/", "/v2/", "v/1"}
VerLists == {<<a>> : a \in VerPool} \cup {<<a, b>> : a, b \in VerPool} \cup {<<"v1", "v11", "/v2/">>, <<"v11", "v1", "v2">>}
RECURSIVE StrsUp(_, _)
StrsUp(alpha, n) == IF n = 0 THEN {""} ELSE LET S == StrsUp(alpha, n - 1) IN S \cup {s \o c : s \in S, c \in alpha}
PathsV == StrsUp({"/", "v", "1", "x"}, PathLen) \cup {"/v2/", "/v2/x/y", "/v11/v1/x", "/V1/x"}
PVDecl(vs) == [op |-> "pathver", key |-> "ver", versions |-> vs]
PVReq(p)   == [op |-> "pv", path |-> p, hdr |-> <<>>]
HVDecl(k, p, vs) == [op |-> "headerver", key |-> p, val |-> k, versions |-> vs]
HVReq(a)   == [op |-> "hvm", path |-> "/x", hdr |-> IF a = "" THEN <<>> ELSE [Accept |-> a]]
HVDecls == {HVDecl(k, p, vs) : k \in {"", "version", "v"}, p \in {"", "hv"}, vs \in {<<"v1">>, <<"v2", "v1">>, <<"2">>}}
AcceptsV == {"", "application/json", "application/json; version=v1", "application/json;version=v2", "application/json; VERSION=v1", "text/html; v=2; version=v3",
             "application/json; version=\"v1\"", "; version=v1", "application/json; version", "a/b; version=v1; version=v2", "application/json; v=v1", "*/*;version=v2"}

Init == /\ hist = <<>>
        /\ CASE Mode = "hosts"     -> \E b \in BasesH : st = b
             [] Mode = "pathver"   -> \E vs \in VerLists : st = <<PVDecl(vs)>>
             [] Mode = "headerver" -> \E d \in HVDecls : st = <<d>>
Next == /\ Mode = "hosts" /\ Len(hist) < Depth /\ UNCHANGED st
        /\ \E o \in HOpsH : hist' = Append(hist, o)
Spec == Init /\ [][Next]_vars

CaseOf == [fam |-> "match", ops |-> st \o hist,
           reqs |-> CASE Mode = "hosts" -> ProbesH [] Mode = "pathver" -> {PVReq(p) : p \in PathsV} [] Mode = "headerver" -> {HVReq(a) : a \in AcceptsV}]
Emit == PrintT("CASE " \o ToJson(CaseOf))

\* ---- design-level properties of the matcher definitions
\* C15: accept iff the path begins with /<version>/ for a listed version; the rewritten path is a suffix; rejection changes nothing
PathVerSane ==
  Mode # "pathver" \/ \A p \in PathsV :
     LET m == [param |-> "ver", versions |-> st[1].versions]  w == PathVerEval(m, p, <<>>) IN
     /\ w.ok = (\E i \in 1..Len(m.versions) : HasPrefix(p, NormVer(m.versions[i])))
     /\ w.ok => (w.ps["ver"] \o w.path = p /\ Ch(w.path, 1) = "/" /\ Ch(w.ps["ver"], 1) = "/")
     /\ ~w.ok => (w.path = p /\ w.ps = <<>>)
\* C14: normalisation is idempotent on its own output for the probe hosts and removes ports / brackets
NormSane == Mode # "hosts" \/ \A q \in ProbesH : LET h == NormHost(q.host) IN h = Lower(h) /\ (HasSuffix(q.host, ":80") => ~HasSuffix(h, ":80"))
=============================================================================
