------------------------------- MODULE Router -------------------------------
(* One router instance as a state machine: one action per public call,     *)
(* the properties C01..C04, C08, C17, C18 stated once over its state, and   *)
(* a history variable so that TLC can print behaviours for replay into the  *)
(* real code (Gen_*.cfg).  MC_*.cfg hide the history with a VIEW.           *)
EXTENDS RouterOps, Json, Integers

CONSTANTS Cfgs,          \* set of configurations [name, trace, lock, icpt, domain]
          Bases,         \* set of sequences of handle ops applied before the history starts
          HOps, ROps, COps, UOps,   \* alphabets of Handle / Remove / Clean / Use calls (records as replayed)
          MOps,          \* creations of long-lived Prefix / Resource objects (C19 / C09)
          Probes,        \* sequence of [path, wit, wps]
          ProbeMethods,  \* sequence of method strings
          Depth,         \* number of calls after the base table (generation)
          EmitAll,       \* emit every history (BFS: prefixes are histories too) or only full-depth ones
          Battery,       \* "last" | "every"
          CaseExtra,     \* record merged into every emitted case (base / mirror flags ...)
          UrlProbes,     \* sequence of URL calls made after the request probes (C10)
          RoundTrip,     \* build the URL of every dispatched route from its captured parameters
          THProbes,      \* requests handed to the bundled Trace helper (C18)
          Link,          \* C08: record the derived-method answers next to every served route
          Dump           \* record the shape of the real tree (structural refinement drift report)

VARIABLES rt, prevRt, last, hist, nbase
vars == <<rt, prevRt, last, hist, nbase>>
view == rt

\* constructors of the op records (exactly what the harness replays)
H(p, ms)      == [op |-> "handle", pat |-> p, methods |-> ms, mws |-> <<>>, chain |-> <<>>, res |-> FALSE]
HM(p, ms, mw) == [op |-> "handle", pat |-> p, methods |-> ms, mws |-> mw, chain |-> <<>>, res |-> FALSE]
Rm(p, ms)     == [op |-> "remove", pat |-> p, methods |-> ms, mws |-> <<>>, chain |-> <<>>, res |-> FALSE]
Cl(pre)       == [op |-> "clean", pat |-> "", methods |-> <<>>, mws |-> <<>>, res |-> FALSE,
                  chain |-> IF pre = "" THEN <<>> ELSE <<[p |-> pre, mws |-> <<>>]>>]
Us(mw)        == [op |-> "use", pat |-> "", methods |-> <<>>, mws |-> mw, chain |-> <<>>, res |-> FALSE]
\* facade calls: ch = prefix chain (outermost first), isres: its last element is a Resource
HF(ch, isres, p, ms, mw) == [op |-> "handle", pat |-> p, methods |-> ms, mws |-> mw, chain |-> ch, res |-> isres]
RmF(ch, isres, p, ms)    == [op |-> "remove", pat |-> p, methods |-> ms, mws |-> <<>>, chain |-> ch, res |-> isres]
ClF(ch, isres)           == [op |-> "clean", pat |-> "", methods |-> <<>>, mws |-> <<>>, chain |-> ch, res |-> isres]
UrlP(via, strict, ch, isres, p, ps) == [op |-> "url", key |-> via, strict |-> strict, pat |-> p, params |-> ps, chain |-> ch, res |-> isres]
Pf(p, mw) == [p |-> p, mws |-> mw]
Misc(ch, isres) == [op |-> "misc", chain |-> ch, res |-> isres, pat |-> "", methods |-> <<>>, mws |-> <<>>]
MkF(fid, ch, isres) == [op |-> "facade", fid |-> fid, chain |-> ch, res |-> isres, pat |-> "", methods |-> <<>>, mws |-> <<>>]
\* an object created FROM another stored object (parent fid): only the last chain element is new
MkFrom(fid, parent, ch, isres) == MkF(fid, ch, isres) @@ [parent |-> parent]
HFo(fid, ch, isres, p, ms, mw) == HF(ch, isres, p, ms, mw) @@ [fid |-> fid]
NoUrls == <<>>
NoMOps == {}
TH(method, path, hdr, body, flag) == [op |-> "tracehelper", method |-> method, path |-> path, hdr |-> hdr, body |-> body, flag |-> flag, n |-> 0]
\* n = -1: the body's length is unknown to the server (chunked / streamed request)
THU(method, path, hdr, body, flag) == [op |-> "tracehelper", method |-> method, path |-> path, hdr |-> hdr, body |-> body, flag |-> flag, n |-> -1]
StdTH == {TH(m, p, h, b, f) : m \in {"TRACE", "GET"}, p \in {"/", "/a<b>&'\"c"}, h \in {<<>>, [Cookie |-> "a<b"], [Accept |-> "x&y'z\"", Cookie |-> "k"]},
                              b \in {"", "<p>&amp;'\"</p>", "it's \"q\""}, f \in BOOLEAN}
         \cup {TH("TRACE", "/q", [Etag |-> "\"v1\""], "", FALSE)}
         \cup {THU("TRACE", "/", <<>>, b, f) : b \in {"x<y", "<p>&amp;'\"</p>"}, f \in BOOLEAN}
\* probes: W = simple-valued witness of a pattern, A = any other path
W(p, wps) == [path |-> Subst(Parse(p).atoms, wps), wit |-> p, wps |-> wps]
A(path)   == [path |-> path, wit |-> "", wps |-> <<>>]
StdIcpt   == [digit |-> "digit", word |-> "word", any |-> "any", even |-> "even"]
Cfg(trace) == [name |-> "r", trace |-> trace, icpt |-> StdIcpt, domain |-> ""]
CfgD(dom)  == [name |-> "r", trace |-> FALSE, icpt |-> StdIcpt, domain |-> dom]

\* deterministic handler identity: re-registration after removal gets a fresh one in traces
\* (the harness numbers them); in the bounded model the pattern+methods name is enough
Hid(pat, methods) == pat \o "|" \o (IF Len(methods) = 0 THEN "" ELSE methods[1])

OpPat(o) == FacadePat(o.chain, o.res, o.pat)

RECURSIVE ApplyBase(_, _, _)
ApplyBase(R, ops, i) ==
  IF i > Len(ops) THEN R
  ELSE IF ops[i].op \in {"facade", "misc"} THEN ApplyBase(R, ops, i + 1)
  ELSE IF ops[i].op = "use" THEN ApplyBase(DoUse(R, ops[i].mws), ops, i + 1)
  ELSE ApplyBase(DoHandle(R, OpPat(ops[i]), Hid(OpPat(ops[i]), ops[i].methods), FacadeMws(ops[i].chain, ops[i].mws), ops[i].methods), ops, i + 1)

Init == \E c \in Cfgs, b \in Bases :
          /\ rt = ApplyBase(NewRouter(c), b, 1) /\ prevRt = rt /\ last = "init"
          /\ hist = b /\ nbase = Len(b)

\* a call through a long-lived facade object needs the object to have been created
Created(o) == ("fid" \in DOMAIN o /\ o.fid # "") => \E i \in 1..Len(hist) : hist[i].op = "facade" /\ hist[i].fid = o.fid
Mk(o) == /\ (o.op = "facade" => ~(\E i \in 1..Len(hist) : hist[i].op = "facade" /\ hist[i].fid = o.fid))
         /\ UNCHANGED <<rt>> /\ prevRt' = rt /\ last' = "facade" /\ hist' = Append(hist, o)
Handle(o) ==
  /\ Created(o)
  /\ \E v \in HandleVerdicts(rt, OpPat(o), o.methods, TRUE) :
        /\ rt' = IF v = "ok" THEN DoHandle(rt, OpPat(o), Hid(OpPat(o), o.methods), FacadeMws(o.chain, o.mws), o.methods) ELSE rt
        /\ last' = IF v = "ok" THEN "handle" ELSE "rejected"
  /\ prevRt' = rt /\ hist' = Append(hist, o)

Remove(o) == rt' = DoRemove(rt, OpPat(o), o.methods) /\ prevRt' = rt /\ last' = "remove" /\ hist' = Append(hist, o)
Clean(o)  == /\ rt' = IF o.res THEN DoRemove(rt, ChainPat(o.chain, 1), <<>>) ELSE DoClean(rt, ChainPat(o.chain, 1))
             /\ prevRt' = rt /\ last' = "clean" /\ hist' = Append(hist, o)
Use(o)    == rt' = DoUse(rt, o.mws) /\ prevRt' = rt /\ last' = "use" /\ hist' = Append(hist, o)

Next == /\ Len(hist) - nbase < Depth
        /\ UNCHANGED nbase
        /\ \/ \E o \in HOps : Handle(o)
           \/ \E o \in ROps : Remove(o)
           \/ \E o \in COps : Clean(o)
           \/ \E o \in UOps : Use(o)
           \/ \E o \in MOps : Mk(o)

Spec == Init /\ [][Next]_vars

\* ------------------------------------------------------------------ properties
PS == ToSet(Probes)
MS == ToSet(ProbeMethods)
I  == rt.cfg.icpt

TableOK == \A p \in Live(rt) : /\ MethodsOf(rt, p) # {}
                               /\ MethodsOf(rt, p) \subseteq Registrable(rt.cfg.trace)
                               /\ Parse(p).err = ""

\* C01: every admissible reply of the specification is sound (this also guards the oracle)
C01_Sound ==
  \A pr \in PS, m \in MS : \A o \in ServeOutcomes(rt, m, pr.path) :
     /\ o.kind \in {"route", "opt", "405"} =>
          /\ SoundOutcome(AtomsOf(rt), I, <<o.pat, o.params>>, pr.path)
          /\ o.kind = "route" => \E em \in MethodsOf(rt, o.pat) : (em = m \/ (m = "HEAD" /\ em = "GET")) /\ rt.tab[o.pat].ms[em].h = o.h
          /\ o.kind = "opt" => m = "OPTIONS"
          /\ o.kind = "405" => m \notin AllowSet(rt, o.pat)
     /\ o.kind = "404" => o.params = <<>>

\* C03: a live route serves its simple-valued witness paths; the winner has a kind
\* vector not below the route's own (literal > interceptor > regexp > named, left to right)
KindVec(p) == [j \in 1..Len(rt.tab[p].atoms) |-> KindOf(I, rt.tab[p].atoms[j])]
C03_Reach ==
  \A pr \in PS : WitValid(rt, pr.wit, pr.wps, pr.path) =>
     LET O == Resolve(AtomsOf(rt), I, pr.path)
     IN O # {} /\ (\A o \in O : SoundOutcome(AtomsOf(rt), I, o, pr.path))

\* C08: HEAD is served exactly as long as GET is registered; OPTIONS for every live pattern
C08_Derived ==
  \A pr \in PS : \A o \in ServeOutcomes(rt, "HEAD", pr.path) :
     o.kind = "route" <=> (o.pat \in Live(rt) /\ "GET" \in MethodsOf(rt, o.pat))

\* C04: Allow of a live pattern always contains OPTIONS, HEAD iff GET, TRACE iff configured
C04_Allow ==
  /\ \A p \in Live(rt) : /\ "OPTIONS" \in AllowSet(rt, p)
                         /\ ("HEAD" \in AllowSet(rt, p)) = ("GET" \in MethodsOf(rt, p))
                         /\ ("TRACE" \in AllowSet(rt, p)) = (rt.cfg.trace \/ "TRACE" \in MethodsOf(rt, p))
  /\ RootAllowOK(rt, RootAllowLo(rt)) /\ RootAllowOK(rt, RootAllowHi(rt))

\* C18: with WithTrace every path answers TRACE with the trace handler
C18_Any == rt.cfg.trace => \A pr \in PS : ServeOutcomes(rt, "TRACE", pr.path) = {TraceReply(rt)}

\* C10: building a dispatched route's pattern from the captured parameters reproduces the path
C10_Roundtrip ==
  \A pr \in PS : \A o \in ServeOutcomes(rt, "GET", pr.path) :
     (o.kind \in {"route", "opt", "405"} /\ \A j \in ParamIdx(rt.tab[o.pat].atoms) : ~rt.tab[o.pat].atoms[j].ig) =>
        \A strict \in BOOLEAN : LET u == URLResult(rt, strict, o.pat, o.params, TRUE)
                                IN u.ok /\ u.val = rt.cfg.domain \o pr.path

\* C17: a rejected Handle changes nothing (action property)
C17_Atomic == [][last' = "rejected" => rt' = rt]_vars

\* C03 frame (action property): a Remove / Clean step never changes an admissible reply
\* that went to a pair the step did not remove
Kept(o, m) == /\ o.kind \in {"route", "opt", "405"} /\ o.pat \in Live(rt')
              /\ o.kind = "route" => \E em \in MethodsOf(rt', o.pat) : (em = m \/ (m = "HEAD" /\ em = "GET")) /\ rt'.tab[o.pat].ms[em].h = o.h
C03_Frame ==
  [][last' \in {"remove", "clean"} =>
       \A pr \in PS, m \in MS : \A o \in ServeOutcomes(rt, m, pr.path) :
          Kept(o, m) => \E o2 \in ServeOutcomes(rt', m, pr.path) :
                           o2.kind = o.kind /\ o2.h = o.h /\ o2.pat = o.pat /\ o2.params = o.params]_vars

\* ------------------------------------------------------------------ generation
\* skey: the abstract table reached, used only to send histories that end in the same table to the same
\* validation shard (so that identical observations are validated once)
CaseOf == CaseExtra @@ [fam |-> "router", cfg |-> rt.cfg @@ [lock |-> FALSE], ops |-> hist, battery |-> Battery,
                        skey |-> ToString([p \in Live(rt) |-> MethodsOf(rt, p)])]
Emit == (Len(hist) > nbase /\ (EmitAll \/ Len(hist) - nbase = Depth)) => PrintT("CASE " \o ToJson(CaseOf))
PoolLine == PrintT("POOL " \o ToJson([pool |-> [probes |-> Probes, methods |-> ProbeMethods, urls |-> UrlProbes, rt |-> RoundTrip, th |-> THProbes, link |-> Link, dump |-> Dump]]))
=============================================================================
