------------------------------ MODULE Resolve ------------------------------
(* The documented route-resolution procedure as a function of the SET of   *)
(* live patterns (no tree is built).  A : pattern -> atoms, I : interceptor *)
(* table.  Res returns the set of ADMISSIBLE outcomes <<pattern, params>>;  *)
(* it has more than one element exactly where the documentation leaves the  *)
(* winner open ("either may win"); {} means 404.                            *)
EXTENDS Syntax

\* longest common literal run of the routes G from atom j on
RECURSIVE Run(_, _, _)
Run(A, G, j) ==
  IF \E r \in G : Len(A[r]) < j \/ A[r][j].k # "c" THEN ""
  ELSE LET c == A[CHOOSE r \in G : TRUE][j].c
       IN IF \A r \in G : A[r][j].c = c THEN c \o Run(A, G, j + 1) ELSE ""

\* all idx >= from such that S occurs in rest at idx and the text before it is accepted
RECURSIVE Caps(_, _, _, _, _)
Caps(I, a, S, rest, from) ==
  LET idx == IndexFrom(rest, S, from)
  IN IF idx = 0 THEN {}
     ELSE (IF Accepts(I, a, Take(rest, idx - 1)) THEN {idx} ELSE {}) \cup Caps(I, a, S, rest, idx + 1)

RECURSIVE Res(_, _, _, _, _, _)
\* all parameter alternatives of one kind at atom i+1
ParamRes(A, I, C, i, rest, ps, kind) ==
  LET toks == {A[r][i + 1] : r \in {r \in C : Len(A[r]) > i /\ A[r][i + 1].k = "p" /\ KindOf(I, A[r][i + 1]) = kind}}
      one(a) ==
        LET Ca     == {r \in C : Len(A[r]) > i /\ A[r][i + 1] = a}
            ends   == {r \in Ca : Len(A[r]) = i + 1}              \* token ends the pattern
            firsts == {A[r][i + 2].c : r \in Ca \ ends}            \* radix groups: first following byte
            ps2(v) == IF a.ig THEN ps ELSE (a.name :> v) @@ ps
            endRes == IF ends # {} /\ Accepts(I, a, rest) THEN {<<r, ps2(rest)>> : r \in ends} ELSE {}
            grp(c) ==
              LET G    == {r \in Ca \ ends : A[r][i + 2].c = c}
                  S    == Run(A, G, i + 2)
                  all  == Caps(I, a, S, rest, 1)
                  \* shortest capture; for regexp tokens Go's leftmost-first greedy
                  \* capture (the longest for the vocabulary) is admitted as well (DESIGN A3)
                  idxs == IF all = {} THEN {} ELSE IF kind = 2 THEN {Min(all), Max(all)} ELSE {Min(all)}
              IN UNION {Res(A, I, G, i + 1 + Len(S), Drop(rest, idx - 1 + Len(S)), ps2(Take(rest, idx - 1))) : idx \in idxs}
        IN endRes \cup UNION {grp(c) : c \in firsts}               \* same kind: either may win
  IN UNION {one(a) : a \in toks}

Res(A, I, C, i, rest, ps) ==
  LET ended  == {r \in C : Len(A[r]) = i}
      lit    == IF rest = "" THEN {}
                ELSE {r \in C : Len(A[r]) > i /\ A[r][i + 1].k = "c" /\ A[r][i + 1].c = Ch(rest, 1)}
      viaLit == IF lit = {} THEN {} ELSE Res(A, I, lit, i + 1, Drop(rest, 1), ps)
      self   == IF rest = "" THEN {<<r, ps>> : r \in ended} ELSE {}   \* vs. empty-matching parameter: either
  IN IF viaLit # {} THEN viaLit                                        \* literal text first
     ELSE LET p1 == ParamRes(A, I, C, i, rest, ps, 1) IN
          IF p1 # {} THEN p1 \cup self                                 \* then interceptors
          ELSE LET p2 == ParamRes(A, I, C, i, rest, ps, 2) IN
               IF p2 # {} THEN p2 \cup self                            \* then regexps
               ELSE ParamRes(A, I, C, i, rest, ps, 3) \cup self        \* then named

Resolve(A, I, path) == Res(A, I, DOMAIN A, 0, path, <<>>)

\* C01: an outcome is sound for a path
SoundOutcome(A, I, o, path) ==
  /\ o[1] \in DOMAIN A
  /\ DOMAIN o[2] = CapNames(A[o[1]])
  /\ Fits(I, A[o[1]], 1, path, o[2])
=============================================================================
