---------------------------- MODULE Trace_Head ----------------------------
(* Validates recorded GET / HEAD reply pairs of handler programs (C08).     *)
EXTENDS Str, Json
CONSTANTS File, Props
Steps == {}  MaxLen == 0
VARIABLE prog
H == INSTANCE Head
Trace == ndJsonDeserialize(File)
VARIABLE l
Ev == Trace[l]
Check(id, cond, info) ==
  IF id \notin Props THEN TRUE
  ELSE IF cond THEN TRUE
  ELSE PrintT("MISMATCH " \o ToJson([id |-> id, line |-> l, info |-> info]))

Init == l = 1 /\ prog = <<>>
TrReset == Ev.ev = "reset"
TrPair ==
  /\ Ev.ev = "headpair"
  /\ IF H!HasPanic(Ev.prog)
     THEN \* the handler panics and the bundled recovery option answers: HEAD still mirrors GET and delivers no body
          /\ Check("C08", Ev.get.panic = "none" /\ Ev.head.panic = "none", <<"panic escaped the recovery option", Ev.prog>>)
          /\ Check("C08", Ev.head.status = Ev.get.status /\ H!Without(Ev.head.hdr, H!CL) = H!Without(Ev.get.hdr, H!CL) /\ Ev.head.body = 0,
                   <<"HEAD differs from GET when the handler panics", Ev.prog, "get", Ev.get, "head", Ev.head>>)
     ELSE
     LET g == H!RunGET(Ev.prog) IN
     \* the recorder itself implements the commit semantics the specification states (binding sanity)
     /\ Check("C08", Ev.get.panic = "none" /\ Ev.head.panic = "none", <<"panic", Ev.prog>>)
     /\ Check("C08", Ev.get.status = g.status /\ Ev.get.hdr = g.sent /\ Ev.get.body = g.body,
              <<"GET run differs from the response-writer model", Ev.prog, Ev.get, g.status, g.sent, g.body>>)
     /\ Check("C08", H!HeadOK(Ev.prog, Ev.head.status, Ev.head.hdr, Ev.head.body),
              <<"HEAD differs from GET", Ev.prog, "get", g.status, g.sent, g.body, "head", Ev.head>>)
     /\ Check("C08", Ev.head.kind = "route" /\ Ev.head.h = Ev.get.h, <<"HEAD not served by the GET handler", Ev.head.kind>>)
Next == /\ l <= Len(Trace) /\ l' = l + 1 /\ UNCHANGED prog
        /\ (TrReset \/ TrPair)
        /\ (l' > Len(Trace) => PrintT("TRACE-END " \o ToString(Len(Trace))))
Spec == Init /\ [][Next]_<<l, prog>>
=============================================================================
