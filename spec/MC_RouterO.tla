---------------------------- MODULE MC_RouterO ----------------------------
(* Add-only registration orders probed with EVERY path up to length L.     *)
EXTENDS MC_Router
CONSTANT L
\* ---------------- pool O: add-only registration orders, every path up to length L (C02)
RECURSIVE Strs(_, _)
Strs(alpha, n) == IF n = 0 THEN {""} ELSE LET S == Strs(alpha, n - 1) IN S \cup {s \o c : s \in S, c \in alpha}
RECURSIVE SeqOfSet(_)
SeqOfSet(S) == IF S = {} THEN <<>> ELSE LET x == CHOOSE x \in S : TRUE IN <<x>> \o SeqOfSet(S \ {x})
PathSeq(alpha, n) == LET q == SeqOfSet(Strs(alpha, n)) IN [i \in 1..Len(q) |-> A(q[i])]
PatsO == {"/u/{id}", "/u/{id:\\d+}", "/u/{id:digit}", "/u/5", "/u/{id}/x", "/u/{id}/{p:\\d+}", "/u/{id}/{a}/xx", "/u/{uid}/x5",
          "/u/{id}x", "/{p}", "/u/{id:digit}55", "/u/x/5", "/u/{p:even}77", "/u/{r:any}", "/u/{id:\\d+}/x", "/u/{id:\\d+}/5", "/u/{-v:\\d+|new}/x", "/{-id:\\d+}/x"}
HOpsO == {H(p, G) : p \in PatsO}
ROpsO == {}  COpsO == {}  UOpsO == {}
CfgsO == {Cfg(FALSE)}
\* the second base puts five literal children under /u/ (first-byte index) using only the probe alphabet
\* (the child "5" is a handler-less split node - /u/5x, /u/57 - until /u/5 itself is registered)
BasesO == {<<>>, <<H("/u/5x", G), H("/u/57", G), H("/u/7", G), H("/u/x", G), H("/u/u", G), H("/u//", G)>>}
\* every string up to length 3, and "/u/" followed by every string up to length L (the pool lives under /u/)
AlphaO == {"/", "u", "x", "5", "7"}
ProbesO == LET q == SeqOfSet(Strs(AlphaO, 3) \cup {"/u/" \o s : s \in Strs(AlphaO, L)}) IN [i \in 1..Len(q) |-> A(q[i])]
MethodsO == <<"GET">>
NoExtraO == NoExtra
=============================================================================
