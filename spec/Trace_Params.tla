---------------------------- MODULE Trace_Params ----------------------------
EXTENDS Str, Json
CONSTANTS File, Props
Keys == {}  Vals == {}  Depth == 0  EmitAll == FALSE
VARIABLES ps, hist
P == INSTANCE Params
Trace == ndJsonDeserialize(File)
VARIABLE l
Ev == Trace[l]
Check(id, cond, info) ==
  IF id \notin Props THEN TRUE
  ELSE IF cond THEN TRUE
  ELSE PrintT("MISMATCH " \o ToJson([id |-> id, line |-> l, info |-> info]))
Init == ps = <<>> /\ hist = <<>> /\ l = 1
TrReset == Ev.ev = "xreset" /\ ps' = <<>>
TrOp == /\ Ev.ev = "pop"
        /\ Check("C20", Ev.res = "ok", <<"context operation panicked", Ev.o>>)
        /\ ps' = P!Apply(ps, Ev.o)
TrObs == /\ Ev.ev = "pobs" /\ UNCHANGED ps
         /\ Check("C20", Ev.res = "ok", <<"accessor panicked", Ev.key>>)
         /\ Check("C20", Ev.res = "ok" => P!AccessOK(ps, Ev.key, Ev.o), <<"accessors", Ev.key, "state", ps, "got", Ev.o>>)
Next == /\ l <= Len(Trace) /\ l' = l + 1 /\ UNCHANGED hist
        /\ (TrReset \/ TrOp \/ TrObs)
        /\ (l' > Len(Trace) => PrintT("TRACE-END " \o ToString(Len(Trace))))
Spec == Init /\ [][Next]_<<ps, hist, l>>
=============================================================================
