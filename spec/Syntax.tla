------------------------------ MODULE Syntax ------------------------------
(* The pattern language of issue9/mux as documented in README / mux.go:   *)
(*   literal text and parameter tokens {name}, {name:rule}, {-name...}.   *)
(* Parse(p) yields the atoms of a WELL-FORMED pattern (balanced tokens,   *)
(* literal text without braces), one of the documented error classes, or  *)
(* "outside" for strings the properties say nothing about.                *)
EXTENDS Str

LitAtom(c) == [k |-> "c", c |-> c, name |-> "", rule |-> "", ig |-> FALSE, tok |-> ""]
ParAtom(name, rule, ig, tok) == [k |-> "p", c |-> "", name |-> name, rule |-> rule, ig |-> ig, tok |-> tok]

\* result of scanning from position i; lastPar: previous atom was a parameter token
RECURSIVE ParseAt(_, _, _)
ParseAt(s, i, lastPar) ==
  IF i > Len(s) THEN [err |-> "", atoms |-> <<>>]
  ELSE IF Ch(s, i) = "}" THEN [err |-> "outside", atoms |-> <<>>]
  ELSE IF Ch(s, i) # "{" THEN
       LET r == ParseAt(s, i + 1, FALSE)
       IN [err |-> r.err, atoms |-> <<LitAtom(Ch(s, i))>> \o r.atoms]
  ELSE LET e == FindCh(s, "}", i) IN
       IF e = 0 THEN [err |-> "outside", atoms |-> <<>>]
       ELSE LET body == SubSeq(s, i + 1, e - 1)
                col  == FindCh(body, ":", 1)
                raw  == IF col = 0 THEN body ELSE Take(body, col - 1)
                rule == IF col = 0 THEN "" ELSE Drop(body, col)
                ig   == Len(raw) > 0 /\ Ch(raw, 1) = "-"
                name == IF ig THEN Drop(raw, 1) ELSE raw
            IN IF Contains(body, "{") THEN [err |-> "outside", atoms |-> <<>>]
               ELSE IF lastPar THEN [err |-> "adjacent", atoms |-> <<>>]
               ELSE IF raw = "" THEN [err |-> "emptyName", atoms |-> <<>>]
               ELSE LET r == ParseAt(s, e + 1, TRUE)
                    IN [err |-> r.err,
                        atoms |-> <<ParAtom(name, rule, ig, SubSeq(s, i, e))>> \o r.atoms]

ParamIdx(atoms) == {j \in 1..Len(atoms) : atoms[j].k = "p"}
HasDupName(atoms) == \E i, j \in ParamIdx(atoms) : i # j /\ atoms[i].name = atoms[j].name

Parse(s) ==
  IF s = "" THEN [err |-> "empty", atoms |-> <<>>]
  ELSE LET r == ParseAt(s, 1, FALSE)
       IN IF r.err # "" THEN r
          ELSE IF HasDupName(r.atoms) THEN [err |-> "dupName", atoms |-> <<>>]
          ELSE r

\* Very long strings are outside what the specification interprets (TLC evaluates the scan
\* recursively): their verdicts are left open, only the absence of runtime faults is checked.
MaxPat == 300
PParse(s) == IF Len(s) > MaxPat THEN [err |-> "outside", atoms |-> <<>>] ELSE Parse(s)

\* ---- kinds and constraints.  I : rule -> class is the router's interceptor table.
\* 0 literal < 1 interceptor < 2 regexp < 3 named
KindOf(I, a) == IF a.k = "c" THEN 0 ELSE IF a.rule = "" THEN 3 ELSE IF a.rule \in DOMAIN I THEN 1 ELSE 2

ClassAccepts(cls, v) ==
  CASE cls = "digit" -> Len(v) > 0 /\ AllIn(v, Digits)
    [] cls = "word"  -> Len(v) > 0 /\ AllIn(v, Word)
    [] cls = "any"   -> Len(v) > 0
    [] cls = "lower" -> Len(v) > 0 /\ AllIn(v, Lowers)      \* harness-defined interceptor
    [] cls = "even"  -> Len(v) > 0 /\ Len(v) % 2 = 0        \* harness-defined, NOT monotone: a longer text may be accepted after a shorter one was refused
    [] OTHER -> FALSE

\* The regexp vocabulary whose meaning the specification defines.  Rules
\* outside it are never interpreted (the generators do not use them for
\* dispatch; whether they compile is a logged input).
ReVocab == {"\\d+", "\\d*", "\\d", "[0-9]+", "[a-z]+", "\\w+", ".+", ".*", "[^/]+", "\\d+|new"}
ReAccepts(rule, v) ==
  CASE rule = "\\d+"    -> Len(v) > 0 /\ AllIn(v, Digits)
    [] rule = "[0-9]+"  -> Len(v) > 0 /\ AllIn(v, Digits)
    [] rule = "\\d*"    -> AllIn(v, Digits)
    [] rule = "\\d"     -> Len(v) = 1 /\ AllIn(v, Digits)
    [] rule = "[a-z]+"  -> Len(v) > 0 /\ AllIn(v, Lowers)
    [] rule = "\\w+"    -> Len(v) > 0 /\ AllIn(v, Word \cup {"_"})
    [] rule = ".+"      -> Len(v) > 0 /\ ~Contains(v, "\n")
    [] rule = ".*"      -> ~Contains(v, "\n")
    [] rule = "[^/]+"   -> Len(v) > 0 /\ ~Contains(v, "/")
    [] rule = "\\d+|new" -> (Len(v) > 0 /\ AllIn(v, Digits)) \/ v = "new"      \* top-level alternation
    [] OTHER -> FALSE

Accepts(I, a, v) ==
  CASE KindOf(I, a) = 3 -> TRUE
    [] KindOf(I, a) = 1 -> ClassAccepts(I[a.rule], v)
    [] KindOf(I, a) = 2 -> ReAccepts(a.rule, v)
    [] OTHER -> FALSE

InVocab(I, atoms) == \A j \in ParamIdx(atoms) : KindOf(I, atoms[j]) = 2 => atoms[j].rule \in ReVocab

CapNames(atoms) == {atoms[j].name : j \in {x \in ParamIdx(atoms) : ~atoms[x].ig}}
ParamNames(atoms) == {atoms[j].name : j \in ParamIdx(atoms)}

\* Shape of a pattern with parameter names and the '-' flag erased (C17 ambiguity)
Shape(atoms) == [j \in 1..Len(atoms) |-> IF atoms[j].k = "c" THEN <<"c", atoms[j].c>> ELSE <<"p", atoms[j].rule>>]

\* ---- substitution (C10): every token replaced by params[name], literals kept
RECURSIVE SubstFrom(_, _, _)
SubstFrom(atoms, ps, j) ==
  IF j > Len(atoms) THEN ""
  ELSE (IF atoms[j].k = "c" THEN atoms[j].c ELSE ps[atoms[j].name]) \o SubstFrom(atoms, ps, j + 1)
Subst(atoms, ps) == SubstFrom(atoms, ps, 1)

\* ---- C01: does path equal the pattern with every parameter replaced by its
\* reported value (ignored parameters: any accepted text)?
RECURSIVE Fits(_, _, _, _, _)
Fits(I, atoms, j, rest, ps) ==
  IF j > Len(atoms) THEN rest = ""
  ELSE LET a == atoms[j] IN
    IF a.k = "c" THEN rest # "" /\ Ch(rest, 1) = a.c /\ Fits(I, atoms, j + 1, Drop(rest, 1), ps)
    ELSE IF a.ig THEN \E n \in 0..Len(rest) : Accepts(I, a, Take(rest, n)) /\ Fits(I, atoms, j + 1, Drop(rest, n), ps)
    ELSE /\ a.name \in DOMAIN ps
         /\ HasPrefix(rest, ps[a.name])
         /\ Accepts(I, a, ps[a.name])
         /\ Fits(I, atoms, j + 1, Drop(rest, Len(ps[a.name])), ps)
=============================================================================
