----------------------------- MODULE RouterOps -----------------------------
(* One router instance as a VALUE and the public calls as operators on it. *)
(*   R = [cfg, tab, use, addOnly]                                           *)
(*   cfg = [name, trace (WithTrace given), icpt : rule -> class, domain]    *)
(*   tab : pattern -> [atoms, ms : method -> [h, mw], auto : seq of mw]     *)
(*         only live pairs are stored; HEAD/OPTIONS/405 are DERIVED         *)
(*   use : sequence of Router.Use / Group.Use middlewares (oldest first)    *)
(* Router.tla, Group.tla, Lock.tla and the trace specifications all use     *)
(* these operators, so every property is stated against one definition.     *)
EXTENDS Resolve

Supported   == {"GET", "POST", "DELETE", "PUT", "PATCH", "CONNECT", "TRACE", "HEAD", "OPTIONS"}
AnyMethods  == <<"GET", "POST", "DELETE", "PUT", "PATCH", "CONNECT">>
Registrable(trace) == (Supported \ {"HEAD", "OPTIONS"}) \ (IF trace THEN {"TRACE"} ELSE {})

NewRouter(cfg) == [cfg |-> cfg, tab |-> <<>>, use |-> <<>>, addOnly |-> TRUE]

Live(R)   == DOMAIN R.tab
HasLong(R) == \E p \in DOMAIN R.tab : Len(p) > MaxPat     \* a live pattern the specification does not interpret
AtomsOf(R) == [p \in DOMAIN R.tab |-> R.tab[p].atoms]
MethodsOf(R, p) == DOMAIN R.tab[p].ms

\* C04/C08: what a live pattern's Allow header, Node().Methods() and Routes() name
AllowOf(ms, trace) == ms \cup (IF "GET" \in ms THEN {"HEAD"} ELSE {}) \cup {"OPTIONS"}
                         \cup (IF trace THEN {"TRACE"} ELSE {})
AllowSet(R, p) == AllowOf(MethodsOf(R, p), R.cfg.trace)

\* C04: OPTIONS * - lower and upper bound (HEAD optional)
RegisteredAnywhere(R) == UNION {MethodsOf(R, p) : p \in Live(R)}
RootAllowLo(R) == {"OPTIONS"} \cup (IF R.cfg.trace THEN {"TRACE"} ELSE {}) \cup RegisteredAnywhere(R)
RootAllowHi(R) == RootAllowLo(R) \cup (IF "GET" \in RegisteredAnywhere(R) THEN {"HEAD"} ELSE {})
RootAllowOK(R, set) == RootAllowLo(R) \subseteq set /\ set \subseteq RootAllowHi(R)

Routes(R) == [p \in Live(R) |-> AllowSet(R, p)]

\* ------------------------------------------------------------------ Handle
EffMethods(methods) == IF Len(methods) = 0 THEN AnyMethods ELSE methods
BadMethod(R, methods) == \E i \in 1..Len(methods) : methods[i] \notin Registrable(R.cfg.trace)
DupMethod(R, pat, methods) ==
  \/ \E i, j \in 1..Len(methods) : i # j /\ methods[i] = methods[j]
  \/ pat \in Live(R) /\ ToSet(methods) \cap MethodsOf(R, pat) # {}

SameShape(R, pat, atoms) == {q \in Live(R) : q # pat /\ Shape(R.tab[q].atoms) = Shape(atoms)}

\* the admissible verdicts of Handle(pat, methods); reOK: logged regexp.Compile answer
HandleVerdicts(R, pat, methods, reOK) ==
  LET P   == PParse(pat)
      ms  == EffMethods(methods)
      amb == SameShape(R, pat, P.atoms)
  IN IF P.err = "outside" THEN {"ok", "err"}                  \* outside the well-formed class
     ELSE IF P.err # "" \/ ~reOK THEN {"err"}                 \* malformed
     ELSE IF BadMethod(R, ms) \/ DupMethod(R, pat, ms) THEN {"err"}
     ELSE IF amb = {} THEN {"ok"}                             \* never rejected as ambiguous
     ELSE IF Live(R) = amb /\ Cardinality(amb) = 1 THEN {"err"}   \* identical up to names to the only other route
     ELSE {"ok", "err"}

\* effect of an ACCEPTED Handle(pat, h, mws, methods); a rejected one changes nothing (C17)
DoHandle(R, pat, h, mws, methods) ==
  LET ms  == ToSet(EffMethods(methods))
      old == IF pat \in Live(R) THEN R.tab[pat]
             ELSE [atoms |-> PParse(pat).atoms, ms |-> <<>>, auto |-> mws]
      ent == [atoms |-> old.atoms, auto |-> old.auto,
              ms |-> [m \in ms \cup DOMAIN old.ms |-> IF m \in ms THEN [h |-> h, mw |-> mws] ELSE old.ms[m]]]
  IN [R EXCEPT !.tab = [p \in Live(R) \cup {pat} |-> IF p = pat THEN ent ELSE R.tab[p]]]

\* ------------------------------------------------------------------ Remove / Clean
\* names that Remove(p, methods...) takes away: HEAD goes only with GET,
\* OPTIONS / '' / unknown / absent names are ignored
DoRemove(R, pat, methods) ==
  IF pat \notin Live(R) THEN [R EXCEPT !.addOnly = FALSE]
  ELSE LET keep == IF Len(methods) = 0 THEN {} ELSE MethodsOf(R, pat) \ ToSet(methods)
       IN [R EXCEPT !.addOnly = FALSE,
                    !.tab = [q \in (IF keep = {} THEN Live(R) \ {pat} ELSE Live(R)) |->
                               IF q = pat THEN [R.tab[q] EXCEPT !.ms = [m \in keep |-> R.tab[q].ms[m]]]
                               ELSE R.tab[q]]]

DoClean(R, prefix) ==
  [R EXCEPT !.addOnly = FALSE, !.tab = [q \in {q \in Live(R) : ~HasPrefix(q, prefix)} |-> R.tab[q]]]

DoUse(R, mws) == [R EXCEPT !.use = R.use \o mws]

\* ------------------------------------------------------------------ facades (C19)
\* Prefix / Prefix.Prefix / Resource calls ARE Router calls on the concatenated pattern and
\* middleware lists.  chain = <<[p, mws], ...>> outermost prefix first; a Resource is the last element.
RECURSIVE ChainPat(_, _)
ChainPat(ch, i) == IF i > Len(ch) THEN "" ELSE ch[i].p \o ChainPat(ch, i + 1)
RECURSIVE ChainMws(_, _)
ChainMws(ch, i) == IF i < 1 THEN <<>> ELSE ch[i].mws \o ChainMws(ch, i - 1)   \* innermost prefix first
FacadePat(chain, isres, pat) == ChainPat(chain, 1) \o (IF isres THEN "" ELSE pat)
FacadeMws(chain, mws) == mws \o ChainMws(chain, Len(chain))

\* ------------------------------------------------------------------ witness paths (C03)
\* path is pattern wit with SIMPLE values: accepted, non-empty, sharing no byte with literal text of a live pattern
LitBytes(R) == UNION {{R.tab[p].atoms[j].c : j \in {x \in 1..Len(R.tab[p].atoms) : R.tab[p].atoms[x].k = "c"}} : p \in Live(R)}
WitValid(R, wit, wps, path) ==
  /\ wit \in Live(R)
  /\ LET at == R.tab[wit].atoms
         lb == LitBytes(R)
     IN /\ ParamNames(at) \subseteq DOMAIN wps
        /\ \A j \in ParamIdx(at) : LET v == wps[at[j].name] IN
               Len(v) > 0 /\ (\A i \in 1..Len(v) : Ch(v, i) \notin lb) /\ Accepts(R.cfg.icpt, at[j], v)
        /\ Subst(at, wps) = path

\* ------------------------------------------------------------------ Serve
Reverse(s) == [i \in 1..Len(s) |-> s[Len(s) + 1 - i]]
\* run order (outermost first) of a handler registered with mw
Order(R, mw) == Reverse(mw \o R.use)

\* reply for a resolved outcome <<pattern, params>> and a method (C01/C08/C09)
ReplyFor(R, o, method) ==
  LET p  == o[1]
      e  == R.tab[p]
      ms == DOMAIN e.ms
      base == [pat |-> p, params |-> o[2], allow |-> AllowSet(R, p)]
  IN IF method \in ms THEN base @@ [kind |-> "route", h |-> e.ms[method].h, order |-> Order(R, e.ms[method].mw)]
     ELSE IF method = "HEAD" /\ "GET" \in ms THEN base @@ [kind |-> "route", h |-> e.ms["GET"].h, order |-> Order(R, e.ms["GET"].mw)]
     ELSE IF method = "OPTIONS" THEN base @@ [kind |-> "opt", h |-> "", order |-> Order(R, e.auto)]
     ELSE base @@ [kind |-> "405", h |-> "", order |-> Order(R, e.auto)]

NotFoundReply(R) == [kind |-> "404", h |-> "", pat |-> "", params |-> <<>>, allow |-> {}, order |-> Reverse(R.use)]
TraceReply(R)    == [kind |-> "trace", h |-> "", pat |-> "", params |-> <<>>, allow |-> {}, order |-> Reverse(R.use)]
RootOptReply(R)  == [kind |-> "rootopt", h |-> "", pat |-> "", params |-> <<>>, allow |-> {}, order |-> Reverse(R.use)]
Root405Reply(R)  == [kind |-> "root405", h |-> "", pat |-> "", params |-> <<>>, allow |-> {}, order |-> Reverse(R.use)]

\* The set of admissible replies of ServeHTTP(method, path) when the tree has its
\* canonical shape (add-only history, or witness paths in any history).
ServeOutcomes(R, method, path) ==
  IF R.cfg.trace /\ method = "TRACE" THEN {TraceReply(R)}                    \* C18: any path
  ELSE IF path \in {"", "*"} THEN
         IF method = "OPTIONS" THEN {RootOptReply(R)} ELSE {NotFoundReply(R), Root405Reply(R)}
  ELSE LET O == Resolve(AtomsOf(R), R.cfg.icpt, path)
       IN IF O = {} THEN {NotFoundReply(R)} ELSE {ReplyFor(R, o, method) : o \in O}

\* ------------------------------------------------------------------ URL (C10)
\* result: [ok |-> BOOLEAN, val |-> string]; "free" = the statement leaves it open
URLResult(R, strict, pat, params, reOK) ==
  LET P    == PParse(pat)
      fail == [ok |-> FALSE, val |-> "", free |-> FALSE]
      free == [ok |-> FALSE, val |-> "", free |-> TRUE]
      names == ParamNames(P.atoms)
      good(v) == [ok |-> TRUE, val |-> R.cfg.domain \o v, free |-> FALSE]
  IN IF P.err \in {"outside", "empty"} THEN free
     ELSE IF P.err # "" \/ ~reOK THEN (IF DOMAIN params = {} /\ ~strict THEN free ELSE fail)
     ELSE IF strict /\ pat \notin Live(R) THEN fail
     ELSE IF DOMAIN params = {} /\ ~strict THEN (IF names = {} THEN good(pat) ELSE free)
     ELSE IF ~(names \subseteq DOMAIN params) THEN fail
     ELSE IF strict /\ ~InVocab(R.cfg.icpt, P.atoms) THEN free
     ELSE IF strict /\ \E j \in ParamIdx(P.atoms) : ~Accepts(R.cfg.icpt, P.atoms[j], params[P.atoms[j].name]) THEN fail
     ELSE good(Subst(P.atoms, params))
=============================================================================
