------------------------------- MODULE Str -------------------------------
(* Byte strings as TLA+ strings.  TLC implements Len, \o and SubSeq on     *)
(* strings (Head / Tail / s[i] are not available), so everything below is  *)
(* built from those three.  A Go byte b is the Latin-1 code point b.       *)
EXTENDS Naturals, Sequences, FiniteSets, TLC

Ch(s, i)   == SubSeq(s, i, i)
Take(s, n) == SubSeq(s, 1, n)
Drop(s, n) == SubSeq(s, n + 1, Len(s))
HasPrefix(s, p) == Len(p) <= Len(s) /\ Take(s, Len(p)) = p
HasSuffix(s, p) == Len(p) <= Len(s) /\ Drop(s, Len(s) - Len(p)) = p

Digits == {"0","1","2","3","4","5","6","7","8","9"}
Lowers == {"a","b","c","d","e","f","g","h","i","j","k","l","m",
           "n","o","p","q","r","s","t","u","v","w","x","y","z"}
Uppers == {"A","B","C","D","E","F","G","H","I","J","K","L","M",
           "N","O","P","Q","R","S","T","U","V","W","X","Y","Z"}
Word   == Digits \cup Lowers \cup Uppers

AllIn(s, C) == \A i \in 1..Len(s) : Ch(s, i) \in C

\* first index >= i at which p occurs in s; 0 if none (p = "" occurs at i when i <= Len(s)+1)
RECURSIVE IndexFrom(_, _, _)
IndexFrom(s, p, i) ==
  IF i + Len(p) - 1 > Len(s) THEN 0
  ELSE IF SubSeq(s, i, i + Len(p) - 1) = p THEN i ELSE IndexFrom(s, p, i + 1)

\* first index >= i of the one-byte string c in s; 0 if none
RECURSIVE FindCh(_, _, _)
FindCh(s, c, i) == IF i > Len(s) THEN 0 ELSE IF Ch(s, i) = c THEN i ELSE FindCh(s, c, i + 1)

\* last index of c in s; 0 if none
RECURSIVE LastCh(_, _, _)
LastCh(s, c, i) == IF i < 1 THEN 0 ELSE IF Ch(s, i) = c THEN i ELSE LastCh(s, c, i - 1)

Contains(s, p) == IndexFrom(s, p, 1) # 0

LowerOf == [c \in Uppers |->
  CASE c = "A" -> "a" [] c = "B" -> "b" [] c = "C" -> "c" [] c = "D" -> "d" [] c = "E" -> "e"
    [] c = "F" -> "f" [] c = "G" -> "g" [] c = "H" -> "h" [] c = "I" -> "i" [] c = "J" -> "j"
    [] c = "K" -> "k" [] c = "L" -> "l" [] c = "M" -> "m" [] c = "N" -> "n" [] c = "O" -> "o"
    [] c = "P" -> "p" [] c = "Q" -> "q" [] c = "R" -> "r" [] c = "S" -> "s" [] c = "T" -> "t"
    [] c = "U" -> "u" [] c = "V" -> "v" [] c = "W" -> "w" [] c = "X" -> "x" [] c = "Y" -> "y"
    [] c = "Z" -> "z"]

\* ASCII lower-casing (bytes outside A-Z are kept)
RECURSIVE LowerFrom(_, _)
LowerFrom(s, i) == IF i > Len(s) THEN ""
                   ELSE (IF Ch(s, i) \in Uppers THEN LowerOf[Ch(s, i)] ELSE Ch(s, i)) \o LowerFrom(s, i + 1)
Lower(s) == LowerFrom(s, 1)
EqFold(a, b) == Lower(a) = Lower(b)

\* printable ASCII; Go's strings.ToLower rewrites invalid UTF-8, so Host strings outside it are not interpreted
PrintableStr == " !\"#$%&'()*+,-./0123456789:;<=>?@ABCDEFGHIJKLMNOPQRSTUVWXYZ[\\]^_`abcdefghijklmnopqrstuvwxyz{|}~"
Printable == {Ch(PrintableStr, i) : i \in 1..Len(PrintableStr)}

Spaces == {" ", "\t"}
RECURSIVE TrimLeft(_)
TrimLeft(s) == IF Len(s) > 0 /\ Ch(s, 1) \in Spaces THEN TrimLeft(Drop(s, 1)) ELSE s
RECURSIVE TrimRight(_)
TrimRight(s) == IF Len(s) > 0 /\ Ch(s, Len(s)) \in Spaces THEN TrimRight(Take(s, Len(s) - 1)) ELSE s
Trim(s) == TrimRight(TrimLeft(s))

\* split on a one-byte separator; always at least one element
RECURSIVE SplitOn(_, _)
SplitOn(s, c) == LET i == FindCh(s, c, 1)
                 IN IF i = 0 THEN <<s>> ELSE <<Take(s, i - 1)>> \o SplitOn(Drop(s, i), c)

\* html.EscapeString: the five HTML metacharacters
EscCh(c) == CASE c = "<" -> "&lt;" [] c = ">" -> "&gt;" [] c = "&" -> "&amp;" [] c = "'" -> "&#39;" [] c = "\"" -> "&#34;" [] OTHER -> c
RECURSIVE HtmlEscapeFrom(_, _)
HtmlEscapeFrom(s, i) == IF i > Len(s) THEN "" ELSE EscCh(Ch(s, i)) \o HtmlEscapeFrom(s, i + 1)
HtmlEscape(s) == HtmlEscapeFrom(s, 1)

ToSet(seq) == {seq[i] : i \in 1..Len(seq)}
SeqMap(F(_), seq) == [i \in 1..Len(seq) |-> F(seq[i])]

Min(S) == CHOOSE x \in S : \A y \in S : x <= y
Max(S) == CHOOSE x \in S : \A y \in S : x >= y
=============================================================================
