------------------------------ MODULE LockInd ------------------------------
(* Inductive invariant of Lock.tla's INTENDED discipline, discharged by Apalache:  *)
(* RaceFree, LockOK and NoTornReply hold for ANY number of operations, not only    *)
(* for the NOps TLC explores.                                                       *)
EXTENDS Lock, Apalache
WPC == {"idle", "w_lock", "w_wait", "w_amb_b", "w_amb_e", "w_mut_b", "w_mut_e", "w_unlock"}
RPC == {"idle", "r_lock", "r_walk_b", "r_walk_e", "r_re_lock", "r_look_b", "r_look_e", "r_unlock", "r_allow_lock", "r_allow_b", "r_allow_e"}
WHolds == {"w_amb_b", "w_amb_e", "w_mut_b", "w_mut_e", "w_unlock"}
RHolds == {"r_walk_b", "r_walk_e", "r_re_lock", "r_look_b", "r_look_e", "r_unlock", "r_allow_b", "r_allow_e"}
TypeOK == /\ pc \in [Procs -> WPC \cup RPC] /\ wl \in Writers \cup {"none"} /\ rl \in SUBSET Readers /\ ww \in SUBSET Writers
          /\ acc \in [Procs -> {"none", "r", "w"}] /\ left \in [Procs -> Nat] /\ live \in BOOLEAN /\ gen \in Nat
          /\ DOMAIN view = Procs /\ (\A p \in Procs : view[p][2] >= 0) /\ reply \in [Procs -> {"-", "404", "200", "torn"}]
IndInv == /\ TypeOK
          /\ \A p \in Writers : /\ pc[p] \in WPC /\ (pc[p] \in WHolds <=> wl = p) /\ (pc[p] = "w_wait" <=> p \in ww)
                                /\ acc[p] = (IF pc[p] = "w_amb_e" THEN "r" ELSE IF pc[p] = "w_mut_e" THEN "w" ELSE "none")
          /\ \A p \in Readers : /\ pc[p] \in RPC /\ (pc[p] \in RHolds <=> p \in rl)
                                /\ acc[p] = (IF pc[p] \in {"r_walk_e", "r_look_e", "r_allow_e"} THEN "r" ELSE "none")
                                /\ (pc[p] \in {"r_re_lock", "r_look_b", "r_look_e"} => view[p] = <<live, gen>>)
                                /\ reply[p] # "torn"
          /\ (wl # "none" => rl = {})
IndInit == view = Gen(5) /\ IndInv
Safety == RaceFree /\ LockOK /\ NoTornReply
\* vacuity guard: IndInit has states in the middle of critical sections, far beyond what TLC's bound reaches
Unsat == ~(\E w \in Writers, r \in Readers : pc[w] = "w_lock" /\ pc[r] = "r_look_e" /\ gen > 7 /\ left[w] > 100)
=============================================================================
