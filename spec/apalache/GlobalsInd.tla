----------------------------- MODULE GlobalsInd -----------------------------
(* Inductive invariant of Globals.tla's INTENDED discipline, discharged by        *)
(* Apalache: RaceFree and PoolOK hold for ANY number of registrations / requests. *)
EXTENDS Globals
PCs == {"idle", "m_lock", "m_b", "m_e", "c_get", "c_use", "a_lock", "a_b", "a_e", "c_put"}
MHolds == {"m_b", "m_e", "a_b", "a_e"}
CHolds == {"c_use", "a_lock", "a_b", "a_e", "c_put"}
TypeOK == /\ pc \in [Procs -> PCs] /\ left \in [Procs -> Nat] /\ mlock \in Procs \cup {"none"} /\ macc \in [Procs -> {"none", "r", "w"}]
          /\ memo \in SUBSET (1..2) /\ need \in [Procs -> 0..2] /\ pool \in SUBSET Ctxs /\ held \in [Procs -> Ctxs \cup {"none"}]
          /\ dirty \in [Ctxs -> BOOLEAN] /\ got \in [Procs -> {"-", "was-dirty", "clean"}]
IndInv == /\ TypeOK
          /\ \A p \in Procs :
               /\ (pc[p] \in MHolds <=> mlock = p)
               /\ (pc[p] \in {"m_lock", "m_b", "m_e"} => need[p] \in 1..2)
               /\ macc[p] = (IF pc[p] = "a_e" THEN "r" ELSE IF pc[p] = "m_e" THEN macc[p] ELSE "none")
               /\ (pc[p] = "m_e" => macc[p] \in {"r", "w"})
               /\ (pc[p] \in CHolds <=> held[p] # "none")
               /\ (held[p] # "none" => held[p] \notin pool)
               /\ (pc[p] = "c_use" => ~dirty[held[p]])
          /\ \A p, q \in Procs : (p # q /\ held[p] # "none") => held[p] # held[q]
IndInit == IndInv
Safety == RaceFree /\ PoolOK
\* vacuity guard: IndInit has states in the middle of critical sections, far beyond what TLC's bound reaches
Unsat == ~(\E p, q \in Procs : p # q /\ pc[p] = "m_e" /\ pc[q] = "c_use" /\ left[p] > 100)
=============================================================================
