------------------------------ MODULE MC_Tree ------------------------------
(* Bounded refinement check: the structural tree of Tree.tla and the abstract *)
(* router of RouterOps.tla are driven in lockstep by Handle / Remove / Clean  *)
(* over a small competing pool; TLC checks the refinement invariants in every *)
(* reachable state (every registration ORDER yields its own tree).            *)
EXTENDS Tree
CONSTANTS Depth
VARIABLES t, rt, n
vars == <<t, rt, n>>
viewT == <<t, rt>>
I0 == [digit |-> "digit", word |-> "word", any |-> "any"]
Cfg0 == [name |-> "r", trace |-> FALSE, icpt |-> I0, domain |-> ""]
Pool == {"/u/{id}", "/u/{id:\\d+}", "/u/{id:digit}", "/u/5", "/u/{id}/x", "/u/{id}/{p:\\d+}", "/u/{uid}/x5", "/u/{id}x", "/{p}", "/u/{id:any}55", "/u/57"}
Prefixes == {"/u/", "/u/{id}", "/u/{id}/", "/u/5"}
ProbePaths == {"/u/5", "/u/57", "/u/7", "/u/5/x", "/u/7/x", "/u/7/8", "/u/7x", "/u/x5/x5", "/u/555", "/u/55", "/u/5x", "/u/7/x/x", "/u/", "/7", "/u/7/x5", "/u/x/5/x"}
G == <<"GET">>
Init == t = Root /\ rt = NewRouter(Cfg0) /\ n = 0
Add(p) == /\ HandleVerdicts(rt, p, G, TRUE) = {"ok"}                      \* ambiguity verdicts that are left open are not taken here
          /\ t' = TreeAdd(I0, t, p, {"GET"}) /\ rt' = DoHandle(rt, p, "h", <<>>, G)
Rem(p) == p \in Live(rt) /\ t' = TreeRemove(t, p, <<>>) /\ rt' = DoRemove(rt, p, <<>>)
Cln(pre) == t' = TreeClean(t, pre) /\ rt' = DoClean(rt, pre)
Next == n < Depth /\ n' = n + 1 /\ ((\E p \in Pool : Add(p) \/ Rem(p)) \/ \E pre \in Prefixes : Cln(pre))
Spec == Init /\ [][Next]_vars

\* the tree stands for exactly the abstract table
TableRef == TreeTable(t) = {<<p, MethodsOf(rt, p)>> : p \in Live(rt)}
Outcome(path) == TreeMatch(I0, t, path)
\* what the tree answers is sound in every state
SoundRef == \A path \in ProbePaths : LET r == Outcome(path) IN r[1] => SoundOutcome(AtomsOf(rt), I0, <<r[2], r[3]>>, path)
\* on add-only histories the tree's answer is one of the admissible outcomes of the documented procedure, and 404 iff there is none
AddOnlyRef == rt.addOnly => \A path \in ProbePaths :
                LET r == Outcome(path)  O == Resolve(AtomsOf(rt), I0, path)
                IN IF r[1] THEN <<r[2], r[3]>> \in O ELSE O = {}
=============================================================================
