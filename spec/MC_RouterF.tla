---------------------------- MODULE MC_RouterF ----------------------------
(* C19 / C09: programs of facade calls (Prefix, Prefix.Prefix, Resource,    *)
(* with per-object middlewares), Router.Use, registrations with their own   *)
(* middlewares; the harness runs the desugared program on a mirror instance.*)
EXTENDS MC_Router

ChainsF == {<<>>,
            <<Pf("/api", <<"a">>)>>,
            <<Pf("/api", <<"a">>), Pf("/v", <<"b", "c">>)>>,
            <<Pf("/api/{i", <<>>)>>,
            <<Pf("", <<"e">>)>>}
ResF    == {<<Pf("/api", <<>>), Pf("/r/{id}", <<"b">>)>>, <<Pf("/q", <<"c", "d">>)>>}
PatsF   == {"/x", "/{id}", "", "/r/{id}/x", "/q/x"}
PatsFor(ch) == IF ch = <<>> THEN {"/x", "/{id}", "/q/x"} ELSE IF ch = <<Pf("/api/{i", <<>>)>> THEN {"d}/x", "d}"}
               ELSE IF ch = <<Pf("/api", <<"a">>)>> THEN {"/x", "/{id}", "", "/r/{id}/x"} ELSE {"/x", "/{id}", ""}
MwsF    == {<<>>, <<"m", "n">>}
AllHF == {HF(ch, FALSE, p, ms, mw) : ch \in ChainsF, p \in PatsF \cup {"d}/x", "d}"}, ms \in {G, P}, mw \in MwsF}
HOpsF == {x \in AllHF : x.pat \in PatsFor(x.chain)}
         \cup {HF(ch, TRUE, "", ms, mw) : ch \in ResF, ms \in {G, P, <<>>}, mw \in MwsF}
\* long-lived facade objects: created once (MOpsF), used by later calls - a Prefix / Resource made BEFORE a Router.Use
\* must still see that middleware, and objects must not share state
Ch1 == <<Pf("/api", <<"a">>)>>   Ch2 == <<Pf("/api", <<"a">>), Pf("/v", <<"b", "c">>)>>   Ch3 == <<Pf("/api", <<>>), Pf("/r/{id}", <<"b">>)>>
Ch4 == <<Pf("/api", <<"a">>), Pf("", <<"z">>)>>       \* an empty nested prefix with a middleware of its own, made from f1
MOpsF == {MkF("f1", Ch1, FALSE), MkF("f2", Ch2, FALSE), MkF("f3", Ch3, TRUE), MkFrom("f4", "f1", Ch4, FALSE), MkFrom("f5", "f1", <<Pf("/api", <<"a">>), Pf("/r2", <<"y">>)>>, TRUE), Misc(<<>>, FALSE), Misc(Ch2, FALSE), Misc(Ch3, TRUE)}
HObjF == {HFo("f1", Ch1, FALSE, p, ms, mw) : p \in {"/x", "/{id}"}, ms \in {G, P}, mw \in MwsF}
         \cup {HFo("f2", Ch2, FALSE, p, ms, mw) : p \in {"/x", ""}, ms \in {G, P}, mw \in MwsF}
         \cup {HFo("f3", Ch3, TRUE, "", ms, mw) : ms \in {G, P}, mw \in MwsF}
         \cup {HFo("f4", Ch4, FALSE, p, G, <<>>) : p \in {"/x", "/z4"}}
HOpsFO == HOpsF \cup HObjF
ROpsF == {RmF(ch, FALSE, p, ms) : ch \in ChainsF \ {<<Pf("/api/{i", <<>>)>>}, p \in {"/x", "/{id}"}, ms \in {<<>>, G}}
         \cup {RmF(ch, TRUE, "", ms) : ch \in ResF, ms \in {<<>>, G}}
COpsF == {ClF(ch, FALSE) : ch \in ChainsF} \cup {ClF(ch, TRUE) : ch \in ResF}
UOpsF == {Us(<<"u">>), Us(<<"v", "w">>)}
CfgsF == {Cfg(FALSE), Cfg(TRUE)}
BasesF == {<<>>, <<HF(<<Pf("/api", <<"a">>)>>, FALSE, "/x", G, <<"m", "n">>), HF(<<>>, FALSE, "/x", P, <<>>), HF(<<Pf("/q", <<"c", "d">>)>>, TRUE, "", G, <<>>)>>}
ProbesF == <<W("/api/x", <<>>), W("/api/{id}", [id |-> "7q"]), W("/api", <<>>), W("/api/v/x", <<>>), W("/api/v/{id}", [id |-> "7q"]), W("/api/v", <<>>),
             W("/api/{id}/x", [id |-> "7q"]), W("/api/r/{id}", [id |-> "7q"]), W("/q", <<>>), W("/x", <<>>), W("/{id}", [id |-> "7q"]),
             W("/api/r/{id}/x", [id |-> "7q"]), W("/q/x", <<>>), W("/api/z4", <<>>),
             A("/nope/7"), A("/api/v/7q/8"), A(""), A("*")>>
MethodsF == <<"GET", "HEAD", "POST", "OPTIONS", "PUT", "TRACE">>
UrlSetF == {UrlP("", st, ch, FALSE, p, m) : st \in BOOLEAN, ch \in {<<>>, <<Pf("/api", <<"a">>)>>, <<Pf("/api", <<"a">>), Pf("/v", <<"b", "c">>)>>}, p \in {"/x", "/{id}"},
                                            m \in {<<>>, [id |-> "5"], [zz |-> "1"]}}
           \cup {UrlP("", st, ch, TRUE, "", m) : st \in BOOLEAN, ch \in ResF, m \in {<<>>, [id |-> "5"], [id |-> "5/6"]}}
BasesFO == BasesF \cup {<<MkF("f1", Ch1, FALSE), MkF("f2", Ch2, FALSE), MkF("f3", Ch3, TRUE)>>,
                        <<Us(<<"u">>), MkF("f1", Ch1, FALSE), MkF("f3", Ch3, TRUE)>>,
                        <<MkF("f1", Ch1, FALSE), MkFrom("f4", "f1", Ch4, FALSE), MkFrom("f5", "f1", <<Pf("/api", <<"a">>), Pf("/r2", <<"y">>)>>, TRUE)>>}
\* sub-alphabet FC: routes registered exactly AT a prefix / resource pattern and below it, then every Clean / Remove (depth 3, unsampled)
ChainsFC == {<<Pf("/api", <<"a">>)>>, <<Pf("/api", <<"a">>), Pf("/v", <<"b", "c">>)>>}
HOpsFC == {HF(ch, FALSE, p, G, <<>>) : ch \in ChainsFC, p \in {"", "/x", "/{id}"}} \cup {HF(ch, TRUE, "", G, <<>>) : ch \in ResF}
          \cup {HF(<<>>, FALSE, "/api/r/{id}/x", G, <<>>), HF(<<>>, FALSE, "/q/x", P, <<>>)}
ROpsFC == {RmF(ch, TRUE, "", <<>>) : ch \in ResF}
COpsFC == {ClF(ch, FALSE) : ch \in ChainsFC} \cup {ClF(ch, TRUE) : ch \in ResF}
UOpsFC == {}
CfgsFC == {Cfg(FALSE)}
BasesFC == {<<>>}
ProbesFC == ProbesF
MethodsFC == <<"GET", "POST", "OPTIONS">>
\* sub-alphabet V (growth): the shorthand methods Get / Post / Delete / Put / Patch / Any of Router, Prefix and Resource are
\* Handle with the one method they name (Any: the default list); the harness calls the shorthand, the specification expects Handle
Verbs == {"get", "post", "delete", "put", "patch", "any"}
VerbMs(v) == CASE v = "get" -> <<"GET">> [] v = "post" -> <<"POST">> [] v = "delete" -> <<"DELETE">> [] v = "put" -> <<"PUT">> [] v = "patch" -> <<"PATCH">> [] OTHER -> <<>>
HVb(ch, isres, p, v, mw) == HF(ch, isres, p, VerbMs(v), mw) @@ [verb |-> v]
HOpsV == {HVb(<<>>, FALSE, "/x", v, mw) : v \in Verbs, mw \in {<<>>, <<"m">>}}
         \cup {HVb(Ch1, FALSE, p, v, <<"m">>) : v \in Verbs, p \in {"/x", ""}}
         \cup {HVb(Ch3, TRUE, "", v, mw) : v \in Verbs, mw \in {<<>>, <<"n">>}}
         \cup {HVb(Ch1, FALSE, "/x", v, <<>>) @@ [fid |-> "f1"] : v \in Verbs} \cup {HVb(Ch3, TRUE, "", v, <<>>) @@ [fid |-> "f3"] : v \in Verbs}
ROpsV == {Rm("/x", <<>>), Rm("/x", <<"PATCH">>), RmF(Ch3, TRUE, "", <<"DELETE", "PUT">>)}
COpsV == {}
UOpsV == {Us(<<"u">>)}
CfgsV == {Cfg(FALSE), Cfg(TRUE)}
BasesV == {<<>>, <<MkF("f1", Ch1, FALSE), MkF("f3", Ch3, TRUE)>>}
ProbesV == <<W("/x", <<>>), W("/api/x", <<>>), W("/api", <<>>), W("/api/r/{id}", [id |-> "7q"]), A("/nope"), A("*")>>
MethodsV == <<"GET", "HEAD", "POST", "DELETE", "PUT", "PATCH", "OPTIONS", "CONNECT", "TRACE">>
MirrorExtra == [base |-> FALSE, mirror |-> TRUE]
=============================================================================
