----------------------------- MODULE Trace_Group -----------------------------
(* Trace specification of the group family (C13 group dispatch, C16 recovery, *)
(* C09 group-level middleware order).                                          *)
EXTENDS Group, Json
CONSTANTS File, Props
Trace == ndJsonDeserialize(File)
VARIABLES G, l
vars == <<G, l>>
Ev == Trace[l]
Check(id, cond, info) ==
  IF id \notin Props THEN TRUE
  ELSE IF cond THEN TRUE
  ELSE PrintT("MISMATCH " \o ToJson([id |-> id, line |-> l, info |-> info]))
SetSeq(S) == IF S = {} THEN <<>> ELSE LET RECURSIVE f(_) f(T) == IF T = {} THEN <<>> ELSE LET x == CHOOSE x \in T : TRUE IN <<x>> \o f(T \ {x}) IN f(S)

Init == G = NewGroup(FALSE) /\ l = 1

TrReset == Ev.ev = "greset" /\ G' = NewGroup(Ev.rec) /\ Check("C05", Ev.res = "ok", <<"NewGroup">>)

OpOf == CASE Ev.ev = "router" -> [op |-> "router", inst |-> Ev.inst, cfg |-> Ev.cfg]
          [] Ev.ev = "gadd"   -> [op |-> "gadd", inst |-> Ev.inst, m |-> Ev.m]
          [] Ev.ev = "gnew"   -> [op |-> "gnew", inst |-> Ev.inst, m |-> Ev.m, cfg |-> Ev.cfg]
          [] Ev.ev = "gremove" -> [op |-> "gremove", inst |-> Ev.inst]
          [] Ev.ev = "guse"   -> [op |-> "guse", mws |-> Ev.mws]
          [] Ev.ev = "handle" -> [op |-> "handle", inst |-> Ev.inst, pat |-> Ev.pat, methods |-> Ev.methods, mws |-> Ev.mws]
          [] Ev.ev = "use"    -> [op |-> "use", inst |-> Ev.inst, mws |-> Ev.mws]

TrOp ==
  /\ Ev.ev \in {"router", "gadd", "gnew", "gremove", "guse", "handle", "use"}
  /\ LET a == ApplyGOp(G, OpOf) IN
     /\ Check("C05", Ev.res \in {"ok", "err", "other"}, <<"runtime fault", Ev.ev, Ev.res>>)
     /\ Check("C13", Ev.ev \in {"gadd", "gnew"} => ((a.res = "ok") = (Ev.res = "ok")), <<"unique names", Ev.ev, Ev.inst, Ev.res, a.res>>)
     /\ G' = IF Ev.res = "ok" THEN a.g ELSE G

\* observed kind of a specified reply
ObsKind(o) == IF o.kind = "rootopt" THEN "opt" ELSE IF o.kind = "root405" THEN "405" ELSE o.kind
R == Ev.r
SameReply(o) == /\ ObsKind(o) = R.kind /\ o.h = R.h /\ o.pat = R.pat /\ o.params = R.params
                /\ o.rname = R.rname /\ o.urlPath = R.urlPath
EscKind(v) == IF v \in {"error", "abort"} THEN "error" ELSE IF v = "runtime" THEN "runtime" ELSE "other"
IsPrefixSeq(a, b) == Len(a) <= Len(b) /\ \A i \in 1..Len(a) : a[i] = b[i]

TrServe ==
  /\ Ev.ev \in {"gserve", "rserve"} /\ UNCHANGED G
  /\ LET req == [method |-> Ev.method, path |-> Ev.path, host |-> Ev.host, accept |-> Ev.accept]
         env == [mime |-> Ev.mime]
         O   == IF Ev.ev = "gserve" THEN GServeOutcomes(G, req, env)
                ELSE IF Ev.inst \in DOMAIN G.rs THEN RServeOutcomes(G, Ev.inst, req) ELSE {}
         plain == DOMAIN Ev.faults = {} /\ AllIn(Ev.host, Printable)       \* non-ASCII Host bytes: only "no panic" is checked
         \* is the observation explained by the specified reply o under the fault plan?
         Explains(o) ==
           LET f == FaultOf(o, Ev.faults)  gd == Guard(G, o) IN
           IF ~f.fired THEN SameReply(o) /\ R.order = o.order /\ R.escaped = "none" /\ R.recovered = <<>>
           ELSE /\ R.order = SubSeq(o.order, 1, IF f.at > Len(o.order) THEN Len(o.order) ELSE f.at)
                /\ IF gd # "" THEN R.escaped = "none" /\ R.recovered = <<gd \o ":" \o f.val>>
                   ELSE R.escaped = EscKind(f.val) /\ R.escval = f.val /\ R.recovered = <<>>
         \* C16 scope: a router without a recovery of its own that was merely Added to a group that has one
         outOfScope == \E o \in O : o.kind # "gnf" /\ Ev.ev = "gserve" /\ G.rec /\ G.rrec[o.rname] = "" /\ FaultOf(o, Ev.faults).fired
     IN /\ Check("C05", DOMAIN Ev.faults = {} => R.escaped = "none", <<"panic without a fault plan", Ev.method, Ev.path, Ev.host, R.escaped, R.escval>>)
        /\ Check("C13", (plain /\ O # {}) => \E o \in O : SameReply(o),
                 <<"group dispatch", Ev.ev, Ev.inst, Ev.method, Ev.path, Ev.host, Ev.accept, "got", R.kind, R.rname, R.h, R.params, R.urlPath,
                   "want", SetSeq({<<ObsKind(o), o.rname, o.h, o.params, o.urlPath>> : o \in O})>>)
        /\ Check("C09", (plain /\ O # {}) => \E o \in O : SameReply(o) /\ R.order = o.order, <<"order", Ev.path, R.kind, R.rname, R.order>>)
        \* C07: what a router answers depends on its own state only - not on calls made on the other routers of the group
        /\ Check("C07", (plain /\ O # {}) => \E o \in O : SameReply(o) /\ R.order = o.order,
                 <<"a router's answer depends on another instance", Ev.path, R.kind, R.rname, R.order, "want", SetSeq({<<ObsKind(o), o.rname, o.order>> : o \in O})>>)
        /\ Check("C13", (plain /\ Ev.ev = "gserve" /\ R.kind = "gnf") => R.finalPath = Ev.path, <<"request path changed by rejecting matchers", Ev.path, R.finalPath>>)
        /\ Check("C16", (O # {} /\ ~outOfScope /\ AllIn(Ev.host, Printable)) => \E o \in O : Explains(o),
                 <<"recovery", Ev.ev, Ev.inst, Ev.method, Ev.path, Ev.faults, "got", R.kind, R.order, R.escaped, R.escval, R.recovered,
                   "guards", SetSeq({<<ObsKind(o), o.order, Guard(G, o)>> : o \in O})>>)

\* Group.Routers() keeps the order of Add / New, Group.Routes() lists every router of the group with its own table,
\* Group.Router(name) finds exactly the routers in the group
TrObserve ==
  /\ Ev.ev = "gobserve" /\ UNCHANGED G
  /\ Check("C05", Ev.res = "ok", <<"group observers panicked">>)
  /\ Check("C13", Ev.order = G.order, <<"Routers() order", Ev.order, G.order>>)
  /\ Check("C13", Ev.nroutes = Len(G.order) /\ DOMAIN Ev.routes = ToSet(G.order)
                  /\ \A n \in DOMAIN Ev.routes : /\ DOMAIN Ev.routes[n] \ {"*"} = Live(G.rs[n])
                                                   /\ \A p \in Live(G.rs[n]) : ToSet(Ev.routes[n][p]) = AllowSet(G.rs[n], p),
           <<"Group.Routes()", Ev.routes>>)
  /\ Check("C13", \A n \in {"r1", "r2", "r3", "r4", "zz"} : (n \in DOMAIN Ev.found) = InGroup(G, n), <<"Group.Router(name)", Ev.found, G.order>>)
\* the bundled recovery options: the panic is contained, the configured status is sent, the io.Writer / logger variants
\* report something, and the next request is served normally
TrRecHelper ==
  /\ Ev.ev = "rechelper" /\ UNCHANGED G
  /\ LET fired == \/ ("h:route" \in DOMAIN Ev.faults /\ Ev.method \in {"GET", "HEAD"} /\ Ev.path = "/x")
                  \/ ("mw:m" \in DOMAIN Ev.faults /\ Ev.path = "/x")
                  \/ ("h:404" \in DOMAIN Ev.faults /\ Ev.path # "/x")
                  \/ ("h:405" \in DOMAIN Ev.faults /\ Ev.path = "/x" /\ Ev.method \notin {"GET", "HEAD", "OPTIONS"})
                  \/ ("h:opt" \in DOMAIN Ev.faults /\ Ev.path = "/x" /\ Ev.method = "OPTIONS")
         late == "late:route" \in DOMAIN Ev.faults /\ Ev.method \in {"GET", "HEAD"} /\ Ev.path = "/x"
     IN /\ Check("C16", Ev.escaped = "none", <<"panic escaped a bundled recovery option", Ev.kind, Ev.method, Ev.path, Ev.faults, Ev.escaped>>)
        /\ Check("C16", fired => Ev.status = Ev.code, <<"recovery status", Ev.kind, Ev.code, Ev.status>>)
        \* a panic after the handler has sent its own status line: contained all the same, the status already sent stands
        /\ Check("C16", (late /\ ~fired) => Ev.status = 204, <<"status after a late panic", Ev.kind, Ev.method, Ev.status>>)
        /\ Check("C16", ((fired \/ late) /\ Ev.kind # "status") => Ev.outlen > 0, <<"nothing written to the recovery output", Ev.kind>>)
        /\ Check("C16", (~fired /\ ~late /\ Ev.kind # "status") => Ev.outlen = 0, <<"recovery output without a panic", Ev.kind>>)
        /\ Check("C16", Ev.later.kind = "route" /\ Ev.later.status = 204 /\ Ev.later.escaped = "none", <<"request after a recovered panic", Ev.later>>)
Next == /\ l <= Len(Trace) /\ l' = l + 1
        /\ (TrReset \/ TrOp \/ TrServe \/ TrObserve \/ TrRecHelper)
        /\ (l' > Len(Trace) => PrintT("TRACE-END " \o ToString(Len(Trace))))
Spec == Init /\ [][Next]_vars
=============================================================================
