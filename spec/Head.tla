-------------------------------- MODULE Head --------------------------------
(* C08: the automatic HEAD handler.  A response writer with the documented  *)
(* net/http commit semantics as a small state machine, handler PROGRAMS     *)
(* (sequences of SetHeader / WriteHeader / Write steps), and what a HEAD    *)
(* request must produce relative to the GET run of the same program.        *)
EXTENDS Str, Json

\* a step: [k |-> "set", a |-> key, b |-> value, n |-> 0] | [k |-> "wh", n |-> status] | [k |-> "w", n |-> bytes]
SetH(a, b) == [k |-> "set", a |-> a, b |-> b, n |-> 0]
WH(c)      == [k |-> "wh", a |-> "", b |-> "", n |-> c]
Wr(n)      == [k |-> "w", a |-> "", b |-> "", n |-> n]
Pn         == [k |-> "panic", a |-> "", b |-> "", n |-> 0]      \* the handler panics here; the router is built with a bundled recovery option
HasPanic(prog) == \E i \in DOMAIN prog : prog[i].k = "panic"

W0 == [hdr |-> <<>>, sent |-> <<>>, status |-> 0, committed |-> FALSE, body |-> 0, explicit |-> FALSE, writes |-> 0]

Commit(w, c) == IF w.committed THEN w ELSE [w EXCEPT !.committed = TRUE, !.status = c, !.sent = w.hdr]

Step(w, s) ==
  CASE s.k = "set" -> [w EXCEPT !.hdr = (s.a :> s.b) @@ w.hdr]           \* after the commit this no longer reaches the client
    [] s.k = "wh"  -> IF w.committed THEN w ELSE [Commit(w, s.n) EXCEPT !.explicit = TRUE]
    [] s.k = "w"   -> [Commit(w, 200) EXCEPT !.body = w.body + s.n, !.writes = w.writes + 1]
    [] OTHER       -> w

RECURSIVE RunFrom(_, _, _)
RunFrom(w, prog, i) == IF i > Len(prog) THEN Commit(w, 200) ELSE RunFrom(Step(w, prog[i]), prog, i + 1)
\* what a GET request running prog sends
RunGET(prog) == RunFrom(W0, prog, 1)

Without(f, k) == [x \in DOMAIN f \ {k} |-> f[x]]
CL == "Content-Length"

\* C08: the HEAD reply (status, sent headers, body bytes delivered) relative to the GET run
HeadOK(prog, status, sent, body) ==
  LET g == RunGET(prog) IN
  /\ status = g.status
  /\ Without(sent, CL) = Without(g.sent, CL)
  /\ body = 0
  /\ (~g.explicit /\ g.body > 0) => (CL \in DOMAIN sent /\ sent[CL] = ToString(g.body))

\* ---------------------------------------------------------------- generator: all programs up to MaxLen
CONSTANTS Steps, MaxLen
VARIABLE prog
Init == prog = <<>>
Next == Len(prog) < MaxLen /\ ~HasPanic(prog) /\ \E s \in Steps : prog' = Append(prog, s)
Spec == Init /\ [][Next]_prog

\* design-level sanity (checked by TLC on every program): the GET run is well-formed and a
\* HEAD reply built as the statement says satisfies HeadOK
IdealHead(p) == LET g == RunGET(p) IN
  [status |-> g.status, body |-> 0,
   sent |-> IF ~g.explicit /\ g.writes > 0 THEN (CL :> ToString(g.body)) @@ g.sent ELSE g.sent]
\* (what the recovery function writes after a panic is net/http's business, not the specification's: for those programs
\*  the trace specification relates the RECORDED HEAD reply to the RECORDED GET reply instead)
C08_Consistent == HasPanic(prog) \/ LET h == IdealHead(prog) IN HeadOK(prog, h.status, h.sent, h.body)
GetCommitted == HasPanic(prog) \/ (RunGET(prog).committed /\ RunGET(prog).status \in {200, 201, 404})

Emit == Len(prog) > 0 => PrintT("CASE " \o ToJson([fam |-> "head", ops |-> <<[op |-> "prog", prog |-> prog]>>]))
=============================================================================
