---------------------------- MODULE MC_RouterU ----------------------------
(* C10: URL building as an exhaustive product  patterns x params maps x    *)
(* strict x route tables x URL domain, through Router.URL and mux.URL.      *)
EXTENDS MC_Router

GoodU == {"/u/{id}", "/u/{id:\\d+}", "/u/{id:digit}/x", "/p/{-id}/{p}", "/lit", "/w/{id:word}-{p:\\d*}", "/lit/", "/u/{id}/", "/n/{id:\\d+|new}", "/u/{id}/z"}
BadU  == {"/u/{}", "/u/{a}{b}", "/u/{id}/{id}", "/u/{id:[}", "/u/{:\\d+}", "/u/{id}/{-id}", "/u/{-id}/{id:\\d+}", "/u/{id:\\d+}{p}", "/u/{id:digit}{p}"}
\* params maps: id absent or one of 8 values, p absent or one of 4, an extra key absent or present
ValsId == {"5", "abc5", "5/6", "", "x y", "new", "brandnew", "{p}"}   \* "{p}": a value that reads like a later token (substitution is one pass over the PATTERN)
ValsP  == {"5", "abc5", "", "x y"}
Opt(k, V) == {<<>>} \cup {(k :> v) : v \in V}
MapsU == {a @@ b @@ c : a \in Opt("id", ValsId), b \in Opt("p", ValsP), c \in Opt("extra", {"1"})}
UrlSetU == {UrlP("", st, <<>>, FALSE, p, m) : st \in BOOLEAN, p \in GoodU \cup BadU, m \in MapsU}
           \cup {UrlP("mux", FALSE, <<>>, FALSE, p, m) : p \in GoodU \cup BadU, m \in MapsU}
UrlProbesU == UrlSetU
HOpsU == {}  ROpsU == {}  COpsU == {}  UOpsU == {Us(<<>>)}
CfgsU == {CfgD(""), CfgD("https://h"), CfgD("https://h/")}
BasesU == {<<>>,
           <<H("/u/{id}", G), H("/u/{id:\\d+}", G), H("/u/{id:digit}/x", G), H("/p/{-id}/{p}", G), H("/lit", G), H("/w/{id:word}-{p:\\d*}", G), H("/n/{id:\\d+|new}", G)>>,
           <<H("/u/{id:digit}/x/y", G), H("/u/{id}/z", G), H("/u/{id}/w", G), H("/lit/x", P), H("/lit/y", P)>>}
ProbesU == <<W("/u/{id}", [id |-> "7q"]), W("/u/{id:\\d+}", [id |-> "77"]), W("/u/{id:digit}/x", [id |-> "78"]),
             W("/p/{-id}/{p}", [id |-> "7q", p |-> "8q"]), W("/lit", <<>>), W("/w/{id:word}-{p:\\d*}", [id |-> "7q", p |-> "88"]),
             A("/w/7q-"), A("/u/7q/z"), A("/u/5/6"), A("/u/")>>
MethodsU == <<"GET", "POST">>
=============================================================================
