----------------------------- MODULE Trace_Match -----------------------------
(* Trace specification of the match family: C14 Hosts (Add / Delete /          *)
(* RegisterInterceptor histories, Host normalisation), C15 version matchers.   *)
EXTENDS Matchers, Json
CONSTANTS File, Props
Trace == ndJsonDeserialize(File)
VARIABLES HR, l
vars == <<HR, l>>
Ev == Trace[l]
Check(id, cond, info) ==
  IF id \notin Props THEN TRUE
  ELSE IF cond THEN TRUE
  ELSE PrintT("MISMATCH " \o ToJson([id |-> id, line |-> l, info |-> info]))
SetSeq(S) == IF S = {} THEN <<>> ELSE LET RECURSIVE f(_) f(T) == IF T = {} THEN <<>> ELSE LET x == CHOOSE x \in T : TRUE IN <<x>> \o f(T \ {x}) IN f(S)

Init == HR = NewRouter(HostsCfg) /\ l = 1
TrReset == Ev.ev = "xreset" /\ HR' = NewRouter(HostsCfg)

ReOK(atoms) == \A j \in ParamIdx(atoms) : KindOf(HR.cfg.icpt, atoms[j]) = 2 => (atoms[j].rule \in DOMAIN Ev.re /\ Ev.re[atoms[j].rule] = "1")
\* add domains one after the other; the call fails at the first rejected one (earlier ones stay)
RECURSIVE AddAll(_, _, _)
AddAll(R0, ds, i) ==
  IF i > Len(ds) THEN [r |-> R0, res |-> {"ok"}]
  ELSE LET d == Lower(ds[i])
           V == HandleVerdicts(R0, d, <<"GET">>, ReOK(Parse(d).atoms))
       IN IF V = {"ok"} THEN AddAll(DoHandle(R0, d, "d", <<>>, <<"GET">>), ds, i + 1)
          ELSE IF V = {"err"} THEN [r |-> R0, res |-> {"err"}]
          ELSE [r |-> R0, res |-> {"ok", "err", "unknown"}]
TrHAdd ==
  /\ Ev.ev \in {"hnew", "hadd"}
  /\ LET base == IF Ev.ev = "hnew" THEN NewRouter(HostsCfg) ELSE HR
         a == AddAll(base, Ev.domains, 1)
     IN /\ Check("C05", Ev.res \in {"ok", "err"}, <<"Hosts.Add fault", Ev.domains, Ev.res>>)
        /\ Check("C14", Ev.res \in a.res, <<"Hosts.Add verdict", Ev.domains, Ev.res, SetSeq(a.res)>>)
        /\ HR' = IF Ev.res = "ok" /\ "unknown" \notin a.res THEN a.r ELSE base
TrHIcpt == Ev.ev = "hicpt" /\ HR' = [HR EXCEPT !.cfg.icpt = (Ev.rule :> Ev.class) @@ HR.cfg.icpt]
TrHDelete == /\ Ev.ev = "hdelete" /\ HR' = DoRemove(HR, Lower(Ev.domain), <<>>)
             /\ Check("C05", Ev.res = "ok", <<"Hosts.Delete fault", Ev.domain>>)
TrHMatch ==
  /\ Ev.ev = "hmatch" /\ UNCHANGED HR
  /\ LET h == NormHost(Ev.host)
         r == HostsMatch(HR, Ev.host)
         ascii == AllIn(Ev.host, Printable)
         canon == ascii /\ (HR.addOnly \/ WitValid(HR, Ev.wit, Ev.wps, h))
     IN /\ Check("C05", Ev.res = "ok", <<"Hosts.Match fault", Ev.host>>)
        /\ Check("C14", canon => (Ev.ok = r.ok /\ (Ev.ok => \E o \in r.outs : o[2] = Ev.params)),
                 <<"hosts match", Ev.host, h, "got", Ev.ok, Ev.params, "want", r.ok, SetSeq(r.outs)>>)
        /\ Check("C14", (ascii /\ Ev.ok) => \E p \in Live(HR) : DOMAIN Ev.params = CapNames(HR.tab[p].atoms) /\ Fits(HR.cfg.icpt, HR.tab[p].atoms, 1, h, Ev.params),
                 <<"hosts match unsound", Ev.host, h, Ev.params>>)
        /\ Check("C14", ~Ev.ok => Ev.params = <<>>, <<"rejecting Hosts leaves parameters", Ev.host, Ev.params>>)

TrDecl == Ev.ev \in {"pathver", "headerver"} /\ UNCHANGED HR
          /\ Check("C05", Ev.res \in {"ok", "other", "err"}, <<"constructor fault", Ev.ev>>)
Pre == [keep |-> "1"]
TrPV ==
  /\ Ev.ev = "pv" /\ UNCHANGED HR
  /\ LET w == PathVerEval([param |-> Ev.param, versions |-> Ev.versions], Ev.path, Pre)
     IN /\ Check("C05", Ev.res = "ok", <<"path version fault", Ev.path>>)
        /\ Check("C15", Ev.ok = w.ok /\ Ev.newpath = w.path /\ Ev.params = w.ps,
                 <<"path version", Ev.versions, Ev.path, "got", Ev.ok, Ev.newpath, Ev.params, "want", w.ok, w.path, w.ps>>)
TrHV ==
  /\ Ev.ev = "hvm" /\ UNCHANGED HR
  /\ LET w == HeaderVerEval([param |-> Ev.param, key |-> Ev.key, versions |-> Ev.versions], Ev.accept, Pre, Ev.mime)
     IN /\ Check("C05", Ev.res = "ok", <<"header version fault", Ev.accept>>)
        /\ Check("C15", Ev.ok = w.ok /\ Ev.newpath = Ev.path /\ Ev.params = w.ps,
                 <<"header version", Ev.versions, Ev.key, Ev.accept, Ev.mime, "got", Ev.ok, Ev.params, "want", w.ok, w.ps>>)

Next == /\ l <= Len(Trace) /\ l' = l + 1
        /\ (TrReset \/ TrHAdd \/ TrHIcpt \/ TrHDelete \/ TrHMatch \/ TrDecl \/ TrPV \/ TrHV)
        /\ (l' > Len(Trace) => PrintT("TRACE-END " \o ToString(Len(Trace))))
Spec == Init /\ [][Next]_vars
=============================================================================
