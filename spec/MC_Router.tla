----------------------------- MODULE MC_Router -----------------------------
(* Bounded instances of Router.tla: pattern pools, base tables, probe sets. *)
(* Structured constants cannot be written in a .cfg, so they are defined    *)
(* here and substituted with <- .                                           *)
EXTENDS Router

G == <<"GET">>   P == <<"POST">>   GP == <<"GET", "POST">>   D == <<"DELETE">>

\* ---------------- pool T (tiny; smoke test and binding self-test)
PatsT   == {"/u/{id}", "/u/{id:\\d+}", "/u/5", "/u/{id}/x"}
HOpsT   == {H(p, ms) : p \in PatsT, ms \in {G, P}}
ROpsT   == {Rm(p, ms) : p \in PatsT, ms \in {<<>>, G}}
COpsT   == {Cl("/u/5"), Cl("")}
ProbesT == <<W("/u/{id}", [id |-> "7z"]), W("/u/{id:\\d+}", [id |-> "77"]), W("/u/5", <<>>), W("/u/{id}/x", [id |-> "7z"]),
             A("/u/7/x/x"), A("/u/"), A("/u/5/x"), A("/"), A(""), A("*")>>
MethodsT == <<"GET", "HEAD", "POST", "OPTIONS", "TRACE", "BOGUS">>
CfgsT   == {Cfg(FALSE), Cfg(TRUE)}
BasesT  == {<<>>}
UOpsT   == {}
NoExtra == [base |-> FALSE]
=============================================================================
