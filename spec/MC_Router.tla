----------------------------- MODULE MC_Router -----------------------------
(* Bounded instances of Router.tla: pattern pools, base tables, probe sets. *)
(* Structured constants cannot be written in a .cfg, so they are defined    *)
(* here and substituted with <- .                                           *)
EXTENDS Router

RECURSIVE SeqOfSetU(_)
SeqOfSetU(S) == IF S = {} THEN <<>> ELSE LET x == CHOOSE x \in S : TRUE IN <<x>> \o SeqOfSetU(S \ {x})
G == <<"GET">>   P == <<"POST">>   GP == <<"GET", "POST">>   D == <<"DELETE">>

\* ---------------- pool T (tiny; smoke test and binding self-test)
PatsT   == {"/u/{id}", "/u/{id:\\d+}", "/u/5", "/u/{id}/x"}
HOpsT   == {H(p, ms) : p \in PatsT, ms \in {G, P}}
ROpsT   == {Rm(p, ms) : p \in PatsT, ms \in {<<>>, G}}
COpsT   == {Cl("/u/5"), Cl("")}
ProbesT == <<W("/u/{id}", [id |-> "7z"]), W("/u/{id:\\d+}", [id |-> "77"]), W("/u/5", <<>>), W("/u/{id}/x", [id |-> "7z"]),
             A("/u/7/x/x"), A("/u/"), A("/u/5/x"), A("/"), A(""), A("*")>>
MethodsT == <<"GET", "HEAD", "POST", "OPTIONS", "TRACE", "BOGUS">>
CfgsT   == {Cfg(FALSE), Cfg(TRUE)}
BasesT  == {<<>>}
UOpsT   == {}
NoExtra == [base |-> FALSE]
BaseExtra == [base |-> TRUE]
LockExtra == [base |-> FALSE, fam |-> "lockdisc"]
MiscOps == {Misc(<<>>, FALSE)}

\* ---------------- pool A: competition / backtracking / abandoned captures
PatsA == {"/u/{id}", "/u/{id:\\d+}", "/u/{id:digit}", "/u/5", "/u/{id}/x", "/u/{id}/{p:\\d+}",
          "/u/{id}/{act}/log", "/u/{-id}/z", "/u/{uid}/x", "/u/{u}/y", "/p/{id:\\d+}.h", "/p-{a}-{b:any}.h", "/p/{-id:\\d+}.h", "/q/{-k:\\d+|new}/x", "/u/{id:\\d+}/x"}
HOpsA == {H(p, ms) : p \in PatsA, ms \in {G, P}}
ROpsA == {Rm(p, ms) : p \in PatsA, ms \in {<<>>, G}}
COpsA == {Cl(""), Cl("/u/"), Cl("/p"), Cl("/u/{id}/"), Cl("/u/{id}"), Cl("/u/5"), Cl("/u/{id:\\d+}/")}
UOpsA == {}
CfgsA == {Cfg(FALSE)}
BasesA == {<<>>, <<H("/p/{-id:\\d+}.h", G), H("/u/{id}", G)>>,
           <<H("/u/{id}/x", G), H("/u/{id}/{p:\\d+}", G), H("/u/{id}/{act}/log", G)>>,
           <<H("/u/{uid}/x", G), H("/u/5", G), H("/u/{id:digit}", G), H("/u/{id:\\d+}", GP), H("/p/{id:\\d+}.h", G)>>}
ProbesA == <<W("/u/{id}", [id |-> "7q"]), W("/u/{id:\\d+}", [id |-> "77"]), W("/u/{id:digit}", [id |-> "78"]), W("/u/5", <<>>),
             W("/u/{id}/x", [id |-> "7q"]), W("/u/{id}/{p:\\d+}", [id |-> "7q", p |-> "88"]),
             W("/u/{id}/{act}/log", [id |-> "7q", act |-> "8w"]), W("/u/{-id}/z", [id |-> "7q"]),
             W("/u/{uid}/x", [uid |-> "7q"]), W("/u/{u}/y", [u |-> "7q"]), W("/p/{id:\\d+}.h", [id |-> "77"]),
             W("/p-{a}-{b:any}.h", [a |-> "7q", b |-> "8w"]), W("/q/{-k:\\d+|new}/x", [k |-> "77"]), A("/q/77"), A("/q/new/x"), A("/q/new"),
             A("/u/5/7/log"), A("/u/7/log/log"), A("/u/7/8/log/log"), A("/u/7/x/x"), A("/u//x"), A("/u/"), A("/u/5/"), A("/u/55"),
             A("/u/7a"), A("/u/7/x8"), A("/u/7/8"), A("/p/7xh"), A("/p/7.h.h"), A("/p/a.h"), A("/p--8.h"), A("/p-7-8.h-9.h"), A("/p-7-.h"),
             A("/u/7q/z/z"), A("/"), A(""), A("*")>>
MethodsA == <<"GET", "HEAD", "POST", "OPTIONS", "TRACE", "BOGUS", "">>

\* ---------------- pool B: >= 5 literal siblings (first-byte index), top-level literals without '/'
LitB  == {"/s/a", "/s/b", "/s/c", "/s/d", "/s/e", "/s/f", "/s/g"}
TopB  == {"a", "b", "c", "d", "e", "f"}
PatsB == LitB \cup TopB \cup {"/s/ta", "/s/tb", "/s/tc", "/s/{id}", "/s/{n:\\d+}", "{top}", "/s/{id}/t", "/s/{k:digit}/t/{r}", "/s/{uid}/t"}
HOpsB == {H(p, ms) : p \in PatsB, ms \in {G, P}}
ROpsB == {Rm(p, ms) : p \in PatsB, ms \in {<<>>, G}}
COpsB == {Cl(""), Cl("/s/"), Cl("/s/a"), Cl("a"), Cl("/s/t"), Cl("/s/{id}")}
UOpsB == {}
CfgsB == {Cfg(FALSE)}
BaseB1 == <<H("/s/a", G), H("/s/b", G), H("/s/c", G), H("/s/d", G), H("/s/e", G), H("/s/f", G), H("/s/g", G), H("/s/{id}", G), H("/s/{n:\\d+}", G)>>
BaseB2 == <<H("a", G), H("b", G), H("c", G), H("d", G), H("e", G), H("f", G), H("{top}", G)>>
BaseB3 == <<H("/s/{id}", G), H("/s/a", G), H("/s/b", G), H("/s/c", G), H("/s/d", G), H("/s/e", G), H("/s/f", G)>>
BaseB4 == BaseB1 \o <<H("/s/{id}/t", G), H("/s/{k:digit}/t/{r}", G)>>
\* a differently named parameter with a sub-tree sorts right after the literals: reached through the first-byte index it
\* captures, fails below, and must leave nothing behind
BaseB5 == <<H("/s/a", G), H("/s/b", G), H("/s/c", G), H("/s/d", G), H("/s/e", G), H("/s/f", G), H("/s/g", G), H("/s/{uid}/t", G), H("/s/{id}", G)>>
BaseB6 == <<H("/s/ta", G), H("/s/tb", G), H("/s/tc", G), H("/s/d", G), H("/s/e", G), H("/s/f", G), H("/s/g", G)>>
BasesB == {BaseB1, BaseB2, BaseB3, BaseB4, BaseB5, BaseB6, BaseB1 \o BaseB2}
ProbesB == <<W("/s/a", <<>>), W("/s/b", <<>>), W("/s/c", <<>>), W("/s/d", <<>>), W("/s/e", <<>>), W("/s/f", <<>>), W("/s/g", <<>>),
             W("/s/{id}", [id |-> "7q"]), W("/s/{n:\\d+}", [n |-> "77"]), W("{top}", [top |-> "7q"]),
             W("a", <<>>), W("b", <<>>), W("c", <<>>), W("d", <<>>), W("e", <<>>), W("f", <<>>),
             W("/s/{id}/t", [id |-> "7q"]), W("/s/{k:digit}/t/{r}", [k |-> "77", r |-> "8w"]),
             W("/s/ta", <<>>), W("/s/tc", <<>>), A("/s/zz"), A("/s/ab"), A("/s/"), A("/s/a/"), A("/s/h"), A("fz"), A("g"), A("/"), A(""), A("*"),
             W("/s/{uid}/t", [uid |-> "7q"]), A("/s/g7/t/zz"), A("/s/a7/t/zz"), A("/s/g7/t"), A("/s/g7/zz"), A("/s/a7/t"), A("/s/a/t"), A("/s/f1/t/zz"), A("/s/77/t"), A("/s/g"), A("/s/g/t/")>>
MethodsB == <<"GET", "HEAD", "POST", "OPTIONS", "BOGUS">>

\* ---------------- pool C: splits around existing nodes, Allow sets, TRACE option
PatsC == {"/posts/author", "/posts/abc", "/posts/{id}/author", "/posts/", "/", "/posts/{id}"}
Dl == <<"DELETE">>
HOpsC == {H(p, ms) : p \in PatsC, ms \in {G, P, Dl}}
ROpsC == {Rm(p, ms) : p \in PatsC, ms \in {<<>>, G, P, <<"DELETE", "PUT">>, <<"GET", "GET">>}}
COpsC == {Cl(""), Cl("/posts/"), Cl("/posts/a"), Cl("/posts/{id}"), Cl("/posts/{id}/")}
UOpsC == {}
CfgsC == {Cfg(FALSE), Cfg(TRUE)}
\* the second base has interior nodes that are routes themselves ("/", "/posts/") with live routes below them
BasesC == {<<>>, <<H("/", G), H("/posts/", GP), H("/posts/author", G), H("/posts/{id}/author", G)>>,
           <<H("/posts/author", G), H("/posts/abc", P), H("/posts/{id}", Dl), H("/posts/{id}/author", G)>>}
ProbesC == <<W("/posts/author", <<>>), W("/posts/abc", <<>>), W("/posts/{id}/author", [id |-> "7q"]), W("/posts/", <<>>), W("/", <<>>),
             W("/posts/{id}", [id |-> "7q"]), A("/posts/autho"), A("/posts/authors"), A("/posts"), A("/posts/author/author"),
             A("/posts/a"), A(""), A("*")>>
MethodsC == <<"GET", "HEAD", "POST", "DELETE", "PUT", "OPTIONS", "TRACE", "BOGUS">>

\* ---------------- pool X: Handle / Remove with every kind of method list (C17, C08, C03)
PatsX == {"/u/{id}/ab", "/u/{id}/ac", "/u/{id}", "/u/{name}", "/x", "/u/{id:\\d+}", "/u/{name}/a", "/u/{id}/", "/u/{name}/", "/u/{-n:[a-z]+}", "/u/{-uid}"}
BadPatsX == {"/u/{}", "/u/{a}{b}", "/u/{a}/{a}", "", "/u/{:\\d+}", "/u/{a}/{-a}", "/u/{-a}/{a:\\d+}", "/u/{a:\\d+}{b}", "/u/{a:digit}{b}"}
ListsX == {G, P, <<"GET", "BOGUS">>, <<"BOGUS", "GET">>, <<"HEAD">>, <<"POST", "OPTIONS">>, <<"TRACE">>, <<"GET", "GET">>, <<"GET", "POST">>, <<"GET", "POST", "GET">>, <<>>}
HOpsX == {H(p, ms) : p \in PatsX, ms \in ListsX} \cup {H(p, G) : p \in BadPatsX}
ROpsX == {Rm(p, ms) : p \in PatsX \ {"/u/{name}", "/u/{name}/a", "/u/{name}/"}, ms \in {<<>>, G, <<"HEAD">>, <<"OPTIONS">>, <<"">>, <<"BOGUS">>, <<"TRACE">>, <<"POST", "GET">>}}
COpsX == {Cl(""), Cl("/u/{id}/a")}
UOpsX == {}
CfgsX == {Cfg(FALSE), Cfg(TRUE)}
BasesX == {<<>>, <<H("/u/{id}/ab", G)>>, <<H("/u/{id}", GP), H("/x", G)>>, <<H("/u/{id}/ab", G), H("/u/{id}/ac", P)>>, <<H("/u/{id}/", GP), H("/u/{id}/ab", G)>>}
ProbesX == <<W("/u/{id}/ab", [id |-> "7q"]), W("/u/{id}/ac", [id |-> "7q"]), W("/u/{id}", [id |-> "7q"]), W("/u/{name}", [name |-> "7q"]),
             W("/x", <<>>), W("/u/{id:\\d+}", [id |-> "77"]), W("/u/{name}/a", [name |-> "7q"]), W("/u/{id}/", [id |-> "7q"]),
             A("/u/x/ac/ab"), A("/u/7q/a"), A("/u/7/ab/ab"), A("/u/"), A("/"), A(""), A("*")>>
MethodsX == <<"GET", "HEAD", "POST", "OPTIONS", "TRACE", "BOGUS", "">>


\* ---------------- pool M: a medium pool for the exhaustive model check of the design-level properties (thorough tier)
PatsM == {"/u/{id}", "/u/{id:\\d+}", "/u/5", "/u/{id}/x", "/u/{id}/{p:\\d+}", "/u/{id:digit}"}
HOpsM == {H(p, ms) : p \in PatsM, ms \in {G, P}}
ROpsM == {Rm(p, ms) : p \in PatsM, ms \in {<<>>, G}}
COpsM == {Cl(""), Cl("/u/{id}/")}
UOpsM == {}
CfgsM == {Cfg(FALSE), Cfg(TRUE)}
BasesM == {<<>>}
ProbesM == <<W("/u/{id}", [id |-> "7q"]), W("/u/{id:\\d+}", [id |-> "77"]), W("/u/5", <<>>), W("/u/{id}/x", [id |-> "7q"]), W("/u/{id}/{p:\\d+}", [id |-> "7q", p |-> "88"]),
             W("/u/{id:digit}", [id |-> "78"]), A("/u/7/x/x"), A("/u/"), A("/u/5/x"), A("/u/5/7"), A("/u/7a/8"), A("/"), A(""), A("*")>>
MethodsM == <<"GET", "HEAD", "POST", "OPTIONS", "TRACE", "BOGUS">>

\* ---------------- pool Y: TRACE as an ordinary method (no WithTrace) next to the configured TRACE handler (depth 3, unsampled)
PatsY == {"/x", "/u/{id}"}
HOpsY == {H(p, ms) : p \in PatsY, ms \in {<<"TRACE">>, <<"TRACE", "POST">>, G, GP}}
ROpsY == {Rm(p, ms) : p \in PatsY, ms \in {<<>>, <<"TRACE">>, P, <<"OPTIONS">>, G}}
COpsY == {Cl("")}
UOpsY == {}
CfgsY == {Cfg(FALSE), Cfg(TRUE)}
BasesY == {<<>>}
ProbesY == <<W("/x", <<>>), W("/u/{id}", [id |-> "7q"]), A("/u/"), A("/zz"), A(""), A("*")>>
MethodsY == <<"GET", "HEAD", "POST", "OPTIONS", "TRACE", "BOGUS">>

\* ---------------- pool K (clean): siblings that share a parameter token - a bare regexp / named parameter and its extensions -
\* x every Clean whose prefix ends inside, at or just after the token, depth 3, unsampled
PatsK == {"/p/{id:\\d+}", "/p/{id:\\d+}/author", "/p/{id}/x", "/p/{id}", "/p/a", "/p/ab"}
HOpsK == {H(p, G) : p \in PatsK}
ROpsK == {}
COpsK == {Cl("/p/{id:\\d+}/"), Cl("/p/{id:\\d+}"), Cl("/p/{id}/"), Cl("/p/{id}"), Cl("/p/a"), Cl("/p/")}
UOpsK == {}
CfgsK == {Cfg(FALSE)}
BasesK == {<<>>}
ProbesK == <<W("/p/{id:\\d+}", [id |-> "77"]), W("/p/{id:\\d+}/author", [id |-> "77"]), W("/p/{id}/x", [id |-> "7q"]), W("/p/{id}", [id |-> "7q"]),
             W("/p/a", <<>>), W("/p/ab", <<>>), A("/p/"), A("/p/77/zz"), A("*")>>
MethodsK == <<"GET", "OPTIONS">>

\* ---------------- pool Wd (wide): one pattern with 32 named parameters (more than any context of the test-suite ever held) next to a
\* narrow one; the battery serves the wide route and then the narrow one through the same pooled request context
\* (distinct one-character separators keep the split of the path unique, so the resolver stays linear)
PWide == "/{A}0{B}1{C}2{D}3{E}4{F}5{G}6{H}7{I}8{J}9{K}b{L}c{M}d{N}e{O}f{P}g{Q}h{R}i{S}j{T}k{U}l{V}m{W}n{X}o{Y}p{Z}q{AA}r{AB}s{AC}t{AD}u{AE}w{AF}"
WideParams == [A |-> "v", B |-> "v", C |-> "v", D |-> "v", E |-> "v", F |-> "v", G |-> "v", H |-> "v", I |-> "v", J |-> "v", K |-> "v", L |-> "v", M |-> "v", N |-> "v", O |-> "v", P |-> "v", Q |-> "v", R |-> "v", S |-> "v", T |-> "v", U |-> "v", V |-> "v", W |-> "v", X |-> "v", Y |-> "v", Z |-> "v", AA |-> "v", AB |-> "v", AC |-> "v", AD |-> "v", AE |-> "v", AF |-> "v"]
HOpsWd == {H("/w/{x}", G), H(PWide, P)}
ROpsWd == {Rm(PWide, <<>>)}
COpsWd == {}
UOpsWd == {}
CfgsWd == {Cfg(FALSE)}
BasesWd == {<<H(PWide, G)>>, <<H(PWide, G), H("/w/{x}", G)>>}
ProbesWd == <<W(PWide, WideParams), W("/w/{x}", [x |-> "7q"]), A("/w"), W(PWide, WideParams), W("/w/{x}", [x |-> "8w"]), A("*")>>
MethodsWd == <<"GET", "POST", "OPTIONS">>

\* ---------------- pool R: a surviving node loses all of its five children, one by one (every order, with repeats)
PatsR == {"/a", "/b", "/c", "/d", "/e", "/a1x", "/a1y"}
HOpsR == {H("/a", P)}
ROpsR == {Rm(p, <<>>) : p \in PatsR}
COpsR == {}  UOpsR == {}
CfgsR == {Cfg(FALSE)}
BasesR == {<<H("/", G), H("/a", G), H("/b", G), H("/c", G), H("/d", G), H("/e", G)>>,
           <<H("/a", G), H("/b", G), H("/c", G), H("/d", G), H("/e", G), H("{top}", G)>>,
           <<H("/a1x", G), H("/a1y", G), H("/c", G), H("/d", G), H("/e", G), H("/f", G)>>,
           <<H("/", G), H("/a1x", G), H("/a1y", G), H("/c", G), H("/d", G), H("/e", G), H("/f", G)>>}
ProbesR == <<W("/", <<>>), W("/a", <<>>), W("/b", <<>>), W("/e", <<>>), W("/c", <<>>), W("/d", <<>>), W("/f", <<>>), W("/a1x", <<>>), W("/a1y", <<>>), W("{top}", [top |-> "7q"]), A("/zz"), A("/a/x"), A("/a1"), A("/a1/"), A("x"), A(""), A("*")>>
MethodsR == <<"GET", "POST", "OPTIONS">>
=============================================================================
