------------------------------- MODULE Globals -------------------------------
(* C07 at design level: the two pieces of PACKAGE-LEVEL state that distinct   *)
(* instances share - the lazily filled method-set memo and the context pool - *)
(* with one goroutine per instance.  Discipline "intended" = the memo is       *)
(* guarded by its own lock (repaired code); "asBuilt" = the plain map of the   *)
(* pinned tree (named deviation, TLC must find the race).                      *)
EXTENDS Naturals, FiniteSets, TLC
\* (the @type comments are for Apalache, which discharges the inductive invariant of apalache/GlobalsInd.tla; TLC ignores them)
CONSTANTS
  \* @type: Set(Str);
  Procs,
  \* @type: Str;
  Discipline,
  \* @type: Int;
  NOps,
  \* @type: Set(Str);
  Ctxs
VARIABLES
  \* @type: Str -> Str;
  pc,
  \* @type: Str -> Int;
  left,
  \* @type: Str;
  mlock,
  \* @type: Str -> Str;
  macc,
  \* @type: Set(Int);
  memo,
  \* @type: Str -> Int;
  need,
  \* @type: Set(Str);
  pool,
  \* @type: Str -> Str;
  held,
  \* @type: Str -> Bool;
  dirty,
  \* @type: Str -> Str;
  got
vars == <<pc, left, mlock, macc, memo, need, pool, held, dirty, got>>
\* memo: set of method-set indexes already rendered; need[p]: the index p's current op needs
\* pool: idle contexts; held[p]: the context p's request is using ("none"); dirty[c]: c still carries parameters
Locked == Discipline = "intended"
Init == /\ pc = [p \in Procs |-> "idle"] /\ left = [p \in Procs |-> NOps] /\ mlock = "none" /\ macc = [p \in Procs |-> "none"]
        /\ memo = {} /\ need = [p \in Procs |-> 0] /\ pool = {} /\ held = [p \in Procs |-> "none"]
        /\ dirty = [c \in Ctxs |-> FALSE] /\ got = [p \in Procs |-> "-"]
Goto(p, x) == pc' = [pc EXCEPT ![p] = x]

\* ---- a registration on p's own instance: buildMethodIndexes(index)
Reg(p, i) == /\ pc[p] = "idle" /\ left[p] > 0 /\ left' = [left EXCEPT ![p] = @ - 1] /\ need' = [need EXCEPT ![p] = i]
             /\ Goto(p, IF Locked THEN "m_lock" ELSE "m_b") /\ UNCHANGED <<mlock, macc, memo, pool, held, dirty, got>>
MLock(p)  == pc[p] = "m_lock" /\ mlock = "none" /\ mlock' = p /\ Goto(p, "m_b") /\ UNCHANGED <<left, macc, memo, need, pool, held, dirty, got>>
MB(p)     == pc[p] = "m_b" /\ macc' = [macc EXCEPT ![p] = IF need[p] \in memo THEN "r" ELSE "w"] /\ Goto(p, "m_e")
             /\ UNCHANGED <<left, mlock, memo, need, pool, held, dirty, got>>
ME(p)     == /\ pc[p] = "m_e" /\ macc' = [macc EXCEPT ![p] = "none"] /\ memo' = memo \cup {need[p]}
             /\ mlock' = (IF mlock = p THEN "none" ELSE mlock) /\ Goto(p, "idle") /\ UNCHANGED <<left, need, pool, held, dirty, got>>
\* ---- a request on p's own instance: NewContext, (handler reads AllowHeader -> memo read), Destroy
Req(p)    == /\ pc[p] = "idle" /\ left[p] > 0 /\ need[p] \in memo /\ left' = [left EXCEPT ![p] = @ - 1]
             /\ Goto(p, "c_get") /\ UNCHANGED <<mlock, macc, memo, need, pool, held, dirty, got>>
CGet(p)   == /\ pc[p] = "c_get"
             /\ \E c \in (IF pool # {} THEN pool ELSE Ctxs \ ({held[q] : q \in Procs} \cup pool)) :
                   /\ held' = [held EXCEPT ![p] = c] /\ pool' = pool \ {c}
                   /\ dirty' = [dirty EXCEPT ![c] = FALSE]          \* NewContext resets what it hands out
                   /\ got' = [got EXCEPT ![p] = IF dirty[c] THEN "was-dirty" ELSE "clean"]
             /\ Goto(p, "c_use") /\ UNCHANGED <<left, mlock, macc, memo, need>>
CUse(p)   == /\ pc[p] = "c_use" /\ dirty' = [dirty EXCEPT ![held[p]] = TRUE]      \* the match captures parameters
             /\ Goto(p, IF Locked THEN "a_lock" ELSE "a_b") /\ UNCHANGED <<left, mlock, macc, memo, need, pool, held, got>>
ALock(p)  == pc[p] = "a_lock" /\ mlock = "none" /\ mlock' = p /\ Goto(p, "a_b") /\ UNCHANGED <<left, macc, memo, need, pool, held, dirty, got>>
AB(p)     == pc[p] = "a_b" /\ macc' = [macc EXCEPT ![p] = "r"] /\ Goto(p, "a_e") /\ UNCHANGED <<left, mlock, memo, need, pool, held, dirty, got>>
AE(p)     == /\ pc[p] = "a_e" /\ macc' = [macc EXCEPT ![p] = "none"] /\ mlock' = (IF mlock = p THEN "none" ELSE mlock)
             /\ Goto(p, "c_put") /\ UNCHANGED <<left, memo, need, pool, held, dirty, got>>
CPut(p)   == /\ pc[p] = "c_put" /\ pool' = pool \cup {held[p]} /\ held' = [held EXCEPT ![p] = "none"]
             /\ Goto(p, "idle") /\ UNCHANGED <<left, mlock, macc, memo, need, dirty, got>>
Next == \E p \in Procs : (\E i \in 1..2 : Reg(p, i)) \/ MLock(p) \/ MB(p) \/ ME(p) \/ Req(p) \/ CGet(p) \/ CUse(p) \/ ALock(p) \/ AB(p) \/ AE(p) \/ CPut(p)
Spec == Init /\ [][Next]_vars
\* no goroutine writes the memo while another reads or writes it
RaceFree == \A p, q \in Procs : p # q => ~(macc[p] = "w" /\ macc[q] # "none")
\* pooled contexts: never two holders; whatever NewContext hands out is empty when the request starts using it
PoolOK == /\ \A p, q \in Procs : (p # q /\ held[p] # "none") => held[p] # held[q]
          /\ \A p \in Procs : held[p] # "none" => held[p] \notin pool
          /\ \A p \in Procs : pc[p] = "c_use" => ~dirty[held[p]]
=============================================================================
