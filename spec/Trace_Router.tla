---------------------------- MODULE Trace_Router ----------------------------
(* Trace specification of the router family: every line of an NDJSON trace  *)
(* recorded from the real issue9/mux must be an action of RouterOps whose   *)
(* prescribed result equals (or, where the property leaves a choice,        *)
(* contains) the recorded one.  Each property is checked by its own named   *)
(* Check; all disagreements of a trace are reported in one pass.            *)
EXTENDS Tree, Cors, Json

CONSTANTS File, Props
Trace == ndJsonDeserialize(File)

VARIABLES rt,      \* the router value prescribed by the specification
          prevRt,  \* its value before the last mutating call (C03 frame)
          lastEv,  \* kind of the last mutating call
          tt,      \* structural model of the tree (Tree.tla), driven in lockstep; only compared for the drift report
          l        \* cursor
vars == <<rt, prevRt, lastEv, tt, l>>
Ev == Trace[l]

Check(id, cond, info) ==
  IF id \notin Props THEN TRUE
  ELSE IF cond THEN TRUE
  ELSE PrintT("MISMATCH " \o ToJson([id |-> id, line |-> l, info |-> info]))

SetSeq(S) == IF S = {} THEN <<>> ELSE LET RECURSIVE f(_) f(T) == IF T = {} THEN <<>> ELSE LET x == CHOOSE x \in T : TRUE IN <<x>> \o f(T \ {x}) IN f(S)
BagOf(seq) == [x \in ToSet(seq) |-> Cardinality({i \in DOMAIN seq : seq[i] = x})]

NormDomain(d) == IF Len(d) > 0 /\ Ch(d, Len(d)) = "/" THEN Take(d, Len(d) - 1) ELSE d
CfgOf(c) == [name |-> c.name, trace |-> c.trace, icpt |-> c.icpt, domain |-> NormDomain(c.domain), cors |-> c.cors]
NoCors == [on |-> FALSE, origins |-> <<>>, allow |-> <<>>, expose |-> <<>>, maxage |-> 0, cred |-> FALSE]
Blank == NewRouter([name |-> "", trace |-> FALSE, icpt |-> <<>>, domain |-> "", cors |-> NoCors])

FullPat == FacadePat(Ev.chain, Ev.isres, Ev.pat)
FullMws == FacadeMws(Ev.chain, Ev.mws)

\* logged stdlib answer: do all regexp-kind rules of these atoms compile?  "unknown" when not logged
ReKnown(I, atoms) == \A j \in ParamIdx(atoms) : KindOf(I, atoms[j]) = 2 => atoms[j].rule \in DOMAIN Ev.re
ReOK(I, atoms)    == \A j \in ParamIdx(atoms) : KindOf(I, atoms[j]) = 2 => Ev.re[atoms[j].rule] = "1"
\* regexp tokens become Go capture groups named after the parameter; names that are not
\* identifiers are outside the documented grammar
OddName(I, atoms) == \E j \in ParamIdx(atoms) : KindOf(I, atoms[j]) = 2 /\ ~atoms[j].ig
                        /\ (atoms[j].name = "" \/ ~AllIn(atoms[j].name, Word \cup {"_"}) \/ Ch(atoms[j].name, 1) \in Digits)

Untracked == Leaf("?", {})
Init == rt = Blank /\ prevRt = Blank /\ lastEv = "reset" /\ tt = Root /\ l = 1

TrReset ==
  /\ Ev.ev = "reset"
  /\ rt' = NewRouter(CfgOf(Ev.cfg)) /\ prevRt' = NewRouter(CfgOf(Ev.cfg)) /\ lastEv' = "reset" /\ tt' = Root
  /\ Check("C05", Ev.res \in {"ok", "err"}, <<"NewRouter", Ev.res>>)
  /\ Check("C11", (Ev.cfg.cors.on /\ AnyOrigin(Ev.cfg.cors) /\ Ev.cfg.cors.cred) => Ev.res = "err", <<"origin * with credentials accepted">>)
  /\ Check("C12", (Ev.res = "err") = ConfigBad(Ev.cfg.cors), <<"configuration verdict", Ev.cfg.cors, Ev.res>>)

\* ------------------------------------------------------------------ Handle
ExpWrapsHandle(pat, mws, methods) ==
  LET ms   == EffMethods(methods)
      all  == mws \o rt.use
      per(m) == [i \in 1..Len(all) |-> <<all[i], m, pat, rt.cfg.name>>]
      RECURSIVE each(_)
      each(i) == IF i > Len(ms) THEN <<>>
                 ELSE per(ms[i]) \o (IF ms[i] = "GET" THEN per("HEAD") ELSE <<>>) \o each(i + 1)
  IN each(1) \o (IF pat \in Live(rt) THEN <<>> ELSE per("OPTIONS") \o per(""))

TrHandle ==
  /\ Ev.ev = "handle"
  /\ LET pat  == FullPat
         mws  == FullMws
         P    == PParse(pat)
         I    == rt.cfg.icpt
         known == ReKnown(I, P.atoms) /\ ~OddName(I, P.atoms)
         V    == IF known THEN HandleVerdicts(rt, pat, Ev.methods, ReOK(I, P.atoms)) ELSE {"ok", "err"}
         noIcpt == DOMAIN Ev.re \cap DOMAIN I = {}
         ms   == EffMethods(Ev.methods)
         listOK == ~BadMethod(rt, ms) /\ ~DupMethod(rt, pat, ms)
     IN /\ Check("C05", Ev.res \in {"ok", "err"} /\ Ev.syn \in {"ok", "err"}, <<"handle fault", pat, Ev.res, Ev.msg, Ev.syn>>)
        /\ Check("C05", noIcpt => ((Ev.res = "ok" => Ev.syn = "ok")
                                   /\ ((lastEv = "reset" /\ listOK /\ Ev.res = "err") => Ev.syn = "err")),
                 <<"Handle vs CheckSyntax", pat, Ev.res, Ev.syn>>)
        /\ Check("C17", Ev.res \in V \/ Ev.res \notin {"ok", "err"}, <<"verdict", pat, Ev.methods, Ev.res, SetSeq(V)>>)
        /\ Check("C08", BadMethod(rt, ms) => Ev.res # "ok", <<"reserved/unknown method accepted", pat, Ev.methods>>)
        /\ Check("C18", (rt.cfg.trace /\ "TRACE" \in ToSet(ms)) => Ev.res # "ok", <<"TRACE registered by hand", pat>>)
        /\ Check("C09", Ev.res = "ok" => BagOf(Ev.wraps) = BagOf(ExpWrapsHandle(pat, mws, Ev.methods)),
                 <<"factory invocations", pat, Ev.wraps, ExpWrapsHandle(pat, mws, Ev.methods)>>)
        /\ Check("C19", "mres" \in DOMAIN Ev => Ev.mres = Ev.res, <<"facade verdict", pat, Ev.res>>)
        /\ Check("C19", ~Ev.clobber, <<"the call wrote into the caller's middleware slice", pat>>)
        /\ Check("C09", ~Ev.clobber, <<"the call wrote into the caller's middleware slice", pat>>)
        \* ... which is also a write to memory the caller still owns (and may share between goroutines) outside any lock
        /\ Check("C06", ~Ev.clobber, <<"the call wrote into the caller's middleware slice", pat>>)
        /\ rt' = IF Ev.res = "ok" THEN DoHandle(rt, pat, Ev.h, mws, Ev.methods) ELSE rt
        /\ prevRt' = rt /\ lastEv' = "handle"
        /\ tt' = IF Ev.res # "ok" THEN tt
                 ELSE IF tt.v = "?" \/ P.err # "" \/ Cardinality(ParamIdx(P.atoms)) > 8 THEN Untracked   \* (the model tree is not carried for very wide patterns)
                 ELSE TreeAdd(rt.cfg.icpt, tt, pat, ToSet(EffMethods(Ev.methods)))

\* creating a Prefix / Resource object changes nothing; later calls through it are desugared with its chain
TrFacade ==
  /\ Ev.ev = "facade" /\ UNCHANGED <<rt, prevRt, lastEv, tt>>
  /\ Check("C05", Ev.res = "ok", <<"facade constructor panicked">>)
  /\ Check("C19", ~Ev.clobber, <<"the constructor wrote into the caller's middleware slice">>)
  /\ Check("C06", ~Ev.clobber, <<"the constructor wrote into the caller's middleware slice">>)

\* accessors outside the listed properties (growth): the method lists are copies of the documented sets, Name() is the
\* configured name, a facade's Pattern() is the concatenated prefix and it belongs to the router that made it
TrMisc ==
  /\ Ev.ev = "misc" /\ UNCHANGED <<rt, prevRt, lastEv, tt>>
  /\ Check("C05", Ev.res = "ok", <<"accessor panicked">>)
  /\ Check("C08", ToSet(Ev.methods) = Supported /\ Len(Ev.methods) = Cardinality(Supported) /\ Ev.any = AnyMethods, <<"Methods() / AnyMethods()", Ev.methods, Ev.any>>)
  /\ Check("C13", Ev.name = rt.cfg.name, <<"Router.Name()", Ev.name>>)
  /\ Check("C19", Len(Ev.chain) > 0 => /\ Ev.sameRouter
                                        /\ (IF Ev.isres THEN Ev.rpat ELSE Ev.ppat) = ChainPat(Ev.chain, 1), <<"facade Pattern() / Router()", Ev.chain, Ev.ppat, Ev.rpat>>)

TrRemove ==
  /\ Ev.ev = "remove"
  /\ Check("C03", Ev.res = "ok", <<"Remove panicked", FullPat, Ev.res>>)
  /\ Check("C05", Ev.res = "ok", <<"Remove panicked", FullPat, Ev.res>>)
  /\ Check("C19", "mres" \in DOMAIN Ev => Ev.mres = Ev.res, <<"facade remove", FullPat>>)
  /\ rt' = DoRemove(rt, FullPat, Ev.methods) /\ prevRt' = rt /\ lastEv' = "remove"
  /\ tt' = IF tt.v = "?" THEN tt ELSE TreeRemove(tt, FullPat, Ev.methods)

TrClean ==
  /\ Ev.ev = "clean"
  /\ Check("C03", Ev.res = "ok", <<"Clean panicked", Ev.res>>)
  /\ Check("C05", Ev.res = "ok", <<"Clean panicked", Ev.res>>)
  /\ Check("C19", "mres" \in DOMAIN Ev => Ev.mres = Ev.res, <<"facade clean">>)
  /\ LET pat == ChainPat(Ev.chain, 1)
     IN rt' = IF Ev.isres THEN DoRemove(rt, pat, <<>>) ELSE DoClean(rt, pat)
  /\ prevRt' = rt /\ lastEv' = "clean"
  /\ tt' = IF tt.v = "?" THEN tt ELSE IF Ev.isres THEN TreeRemove(tt, ChainPat(Ev.chain, 1), <<>>) ELSE TreeClean(tt, ChainPat(Ev.chain, 1))

ExpWrapsUse(mws) ==
  LET nm == rt.cfg.name
      lives == SetSeq(Live(rt))
      forPat(t, p) == LET ms == SetSeq(MethodsOf(rt, p))
                      IN [i \in 1..Len(ms) |-> <<t, ms[i], p, nm>>]
                         \o (IF "GET" \in MethodsOf(rt, p) THEN <<<<t, "HEAD", p, nm>>>> ELSE <<>>)
                         \o <<<<t, "OPTIONS", p, nm>>, <<t, "", p, nm>>>>
      RECURSIVE pats(_, _)
      pats(t, i) == IF i > Len(lives) THEN <<>> ELSE forPat(t, lives[i]) \o pats(t, i + 1)
      one(t) == <<<<t, "", "", nm>>, <<t, "OPTIONS", "", nm>>>>
                \o (IF rt.cfg.trace THEN <<<<t, "TRACE", "", nm>>>> ELSE <<>>) \o pats(t, 1)
      RECURSIVE all(_)
      all(i) == IF i > Len(mws) THEN <<>> ELSE one(mws[i]) \o all(i + 1)
  IN all(1)
\* a 405 handler for the root entry ('' method, '' pattern) may or may not exist
OptWrapsUse(mws) == [i \in 1..Len(mws) |-> <<mws[i], "", "", rt.cfg.name>>]
BagLeq(a, b) == \A x \in DOMAIN a : x \in DOMAIN b /\ a[x] <= b[x]

TrUse ==
  /\ Ev.ev = "use"
  /\ Check("C05", Ev.res = "ok", <<"Use panicked">>)
  /\ Check("C09", ~Ev.clobber, <<"Use wrote into the caller's middleware slice">>)
  /\ Check("C06", ~Ev.clobber, <<"Use wrote into the caller's middleware slice">>)
  /\ Check("C09", /\ BagLeq(BagOf(ExpWrapsUse(Ev.mws)), BagOf(Ev.wraps))
                  /\ BagLeq(BagOf(Ev.wraps), BagOf(ExpWrapsUse(Ev.mws) \o OptWrapsUse(Ev.mws))),
           <<"factory invocations of Use", Ev.wraps, ExpWrapsUse(Ev.mws)>>)
  /\ rt' = DoUse(rt, Ev.mws) /\ prevRt' = rt /\ lastEv' = "use" /\ UNCHANGED tt

\* ------------------------------------------------------------------ observers
RoutesOK(val) == /\ DOMAIN val \ {"*"} = Live(rt)
                 /\ \A p \in Live(rt) : ToSet(val[p]) = AllowSet(rt, p)
TrRoutes ==
  /\ Ev.ev = "routes" /\ UNCHANGED <<rt, prevRt, lastEv, tt>>
  /\ Check("C05", Ev.res = "ok", <<"Routes panicked">>)
  /\ Check("C03", Ev.res = "ok" => RoutesOK(Ev.val), <<"routes", Ev.val, "live", SetSeq(Live(rt))>>)
  /\ Check("C04", Ev.res = "ok" => (\A p \in Live(rt) \cap DOMAIN Ev.val : ToSet(Ev.val[p]) = AllowSet(rt, p)),
           <<"routes methods", Ev.val>>)
  /\ Check("C17", (rt = prevRt /\ Ev.res = "ok") => RoutesOK(Ev.val), <<"routes after rejected call", Ev.val>>)
  /\ Check("C18", (rt.cfg.trace /\ Ev.res = "ok") => \A p \in DOMAIN Ev.val : "TRACE" \in ToSet(Ev.val[p]), <<"TRACE missing from Routes()", Ev.val>>)
  /\ Check("C19", "hasMirror" \in DOMAIN Ev => (Ev.mirror = Ev.val /\ Ev.mres = Ev.res), <<"facade routes", Ev.val, Ev.mirror>>)
  \* C19 also fixes the MEANING of the facade calls (Prefix.Clean removes exactly the routes whose pattern starts with the prefix ...)
  /\ Check("C19", ("hasMirror" \in DOMAIN Ev /\ Ev.res = "ok") => RoutesOK(Ev.val), <<"routes after facade calls", Ev.val, "live", SetSeq(Live(rt))>>)

R == Ev.r
WitOK == WitValid(rt, Ev.wit, Ev.wps, Ev.path)
Same(o) == o.kind = R.kind /\ o.h = R.h /\ o.pat = R.pat /\ o.params = R.params
EffM(p, m) == IF m = "HEAD" /\ "HEAD" \notin MethodsOf(rt, p) THEN "GET" ELSE m

ServeRoot ==
  IF Ev.method = "OPTIONS"
  THEN /\ Check("C04", R.kind = "opt" /\ R.pat = "" /\ RootAllowOK(rt, ToSet(R.allowH)), <<"OPTIONS *", R.kind, R.allowH, SetSeq(RootAllowLo(rt))>>)
       /\ Check("C09", R.order = Reverse(rt.use), <<"order OPTIONS *", R.order>>)
       \* C19 names the Allow headers among what the facade calls must leave as the equivalent Router calls would
       /\ Check("C19", Ev.hasMirror => (R.kind = "opt" /\ RootAllowOK(rt, ToSet(R.allowH))), <<"OPTIONS * after facade calls", R.allowH, SetSeq(RootAllowLo(rt))>>)
  ELSE Check("C05", R.kind \in {"404", "405"}, <<"root entry", Ev.method, Ev.path, R.kind>>)
ServeRootTrace == Check("C18", (rt.cfg.trace /\ Ev.method = "OPTIONS" /\ R.kind = "opt") => "TRACE" \in ToSet(R.allowH), <<"TRACE missing from the Allow set of OPTIONS *", R.allowH>>)

ServeGeneral ==
  LET inVocab == R.pat \in Live(rt) /\ Len(R.pat) <= MaxPat /\ InVocab(rt.cfg.icpt, rt.tab[R.pat].atoms)
      want == ReplyFor(rt, <<R.pat, R.params>>, Ev.method)
  IN
  \* C01: whatever is reported is sound, in ANY history and for ANY path
  /\ Check("C01", IF R.kind = "404" THEN DOMAIN R.params = {} /\ ~R.hasNode
                  ELSE /\ R.kind \in {"route", "opt", "405"} /\ R.hasNode /\ R.pat \in Live(rt)
                       /\ (Len(R.pat) <= MaxPat => DOMAIN R.params = CapNames(rt.tab[R.pat].atoms))
                       /\ (inVocab => Fits(rt.cfg.icpt, rt.tab[R.pat].atoms, 1, Ev.path, R.params)),
           <<"unsound", Ev.method, Ev.path, R.kind, R.pat, R.params>>)
  /\ IF ~(R.kind \in {"route", "opt", "405"} /\ R.pat \in Live(rt)) THEN TRUE ELSE
       /\ Check(IF Ev.method \in {"HEAD", "OPTIONS"} THEN "C08" ELSE "C01",
                want.kind = R.kind /\ want.h = R.h, <<"method dispatch", Ev.method, Ev.path, R.pat, "want", want.kind, want.h, "got", R.kind, R.h>>)
       /\ Check("C03", want.kind = R.kind /\ want.h = R.h, <<"removed pair served / live pair not served", Ev.method, Ev.path, R.pat, want.kind, want.h, R.kind, R.h>>)
       /\ Check("C04", (R.hasAllowH => ToSet(R.allowH) = AllowSet(rt, R.pat)) /\ ToSet(R.allowN) = AllowSet(rt, R.pat),
                <<"allow", R.pat, R.kind, "header", R.allowH, "node", R.allowN, "want", SetSeq(AllowSet(rt, R.pat))>>)
       /\ Check("C09", want.kind = R.kind => R.order = want.order, <<"order", Ev.method, R.pat, R.kind, R.order, want.order>>)
       /\ Check("C18", rt.cfg.trace => ("TRACE" \in ToSet(R.allowN) /\ (R.hasAllowH => "TRACE" \in ToSet(R.allowH))), <<"TRACE missing from an Allow set", R.pat, R.allowH, R.allowN>>)
  \* C18, second half: without the option TRACE is an ordinary method - served exactly while it is registered, else 404 / 405
  /\ Check("C18", (~rt.cfg.trace /\ Ev.method = "TRACE" /\ R.kind = "route") => (R.pat \in Live(rt) /\ "TRACE" \in MethodsOf(rt, R.pat)),
           <<"TRACE served although it is not registered", Ev.path, R.pat>>)
  /\ Check("C18", (~rt.cfg.trace /\ Ev.method = "TRACE" /\ R.kind \in {"route", "405"} /\ R.pat \in Live(rt)) => (want.kind = R.kind /\ want.h = R.h),
           <<"TRACE as an ordinary method", Ev.path, R.pat, "want", want.kind, want.h, "got", R.kind, R.h>>)
  /\ Check("C09", R.kind = "404" => R.order = Reverse(rt.use), <<"order 404", R.order>>)
  \* C08, independent of the specification's table: whatever pattern SERVES a method also answers OPTIONS automatically,
  \* HEAD is served by the GET handler exactly when GET is served, and HEAD is never served on its own
  /\ IF ~(Ev.hasLink /\ R.kind = "route") THEN TRUE ELSE
       LET k == Ev.link IN
       /\ Check("C08", k.optk = "opt" /\ k.optpat = R.pat, <<"a served pattern does not answer OPTIONS", Ev.method, Ev.path, R.pat, k.optk, k.optpat>>)
       /\ Check("C08", Ev.method = "GET" => (k.ok = "route" /\ k.oh = R.h /\ k.opat = R.pat), <<"HEAD is not served by the GET handler", Ev.path, R.pat, k.ok, k.oh>>)
       /\ Check("C08", Ev.method = "HEAD" => (k.ok = "route" /\ k.oh = R.h /\ k.opat = R.pat), <<"HEAD served without GET", Ev.path, R.pat, k.ok, k.oh>>)
       /\ Check("C08", (Ev.method \notin {"GET", "HEAD"} /\ k.ok = "route") => (k.opat = R.pat), <<"HEAD of another pattern", Ev.path, R.pat, k.opat>>)
  \* C02 (add-only) / C03 (witness paths in any history): the outcome is an admissible one
  /\ IF HasLong(rt) \/ ~(rt.addOnly \/ WitOK) THEN TRUE ELSE
       LET O == ServeOutcomes(rt, Ev.method, Ev.path)
       IN /\ Check(IF rt.addOnly THEN "C02" ELSE "C03", \E o \in O : Same(o),
                   <<"resolution", Ev.method, Ev.path, "got", R.kind, R.pat, R.params, "admissible", SetSeq({<<o.kind, o.pat, o.params>> : o \in O})>>)
          /\ Check("C03", WitOK => \E o \in O : Same(o), <<"witness", Ev.wit, Ev.path, R.kind, R.pat>>)
          /\ Check("C19", (Ev.hasMirror /\ WitOK) => \E o \in O : Same(o), <<"dispatch after facade calls", Ev.wit, Ev.path, R.kind, R.pat>>)
  \* C17: after a rejected call (rt = prevRt) everything is still what the unchanged table prescribes
  /\ Check("C17", (lastEv = "handle" /\ rt = prevRt /\ rt.addOnly /\ ~HasLong(rt)) => \E o \in ServeOutcomes(rt, Ev.method, Ev.path) : Same(o),
           <<"dispatch differs from the unchanged table after a rejected call", Ev.method, Ev.path, R.kind, R.pat>>)
  /\ Check("C17", (lastEv = "handle" /\ rt = prevRt /\ Ev.hasPrev) =>
                    (R.kind = Ev.prev.kind /\ R.h = Ev.prev.h /\ R.pat = Ev.prev.pat /\ R.params = Ev.prev.params
                     /\ R.panic = Ev.prev.panic /\ ToSet(R.allowH) = ToSet(Ev.prev.allowH) /\ ToSet(R.allowN) = ToSet(Ev.prev.allowN)),
           <<"changed by a rejected call", Ev.method, Ev.path, "before", Ev.prev, "after", R.kind, R.pat, R.params, R.allowH>>)
  \* C03 frame: a removal never changes requests that were dispatched elsewhere
  /\ IF ~(Ev.hasPrev /\ lastEv \in {"remove", "clean"}) THEN TRUE ELSE
       LET b == Ev.prev
           kept == /\ b.panic = "none" /\ b.kind \in {"route", "opt", "405"}
                   /\ b.pat \in Live(prevRt) /\ b.pat \in Live(rt)
                   /\ (b.kind = "route" => LET em == IF Ev.method \in MethodsOf(prevRt, b.pat) THEN Ev.method ELSE "GET"
                                           IN em \in MethodsOf(prevRt, b.pat) /\ em \in MethodsOf(rt, b.pat)
                                              /\ prevRt.tab[b.pat].ms[em].h = b.h /\ rt.tab[b.pat].ms[em].h = b.h)
       IN Check("C03", kept => (R.kind = b.kind /\ R.h = b.h /\ R.pat = b.pat /\ R.params = b.params),
                <<"frame", Ev.method, Ev.path, "before", b.kind, b.pat, b.params, "after", R.kind, R.pat, R.params>>)

TrServe ==
  /\ Ev.ev = "serve" /\ UNCHANGED <<rt, prevRt, lastEv, tt>>
  /\ Check("C05", R.panic = "none", <<"panic", Ev.method, Ev.path, R.panic>>)
  /\ Check("C03", (~rt.addOnly) => R.panic = "none", <<"panic after removal", Ev.method, Ev.path, R.panic>>)
  \* on an add-only table C02 prescribes the outcome of every path: a request that faults instead has none
  /\ Check("C02", rt.addOnly => R.panic = "none", <<"panic instead of the documented resolution", Ev.method, Ev.path, R.panic>>)
  /\ Check("C19", Ev.hasMirror => Ev.mirror = R, <<"facade dispatch", Ev.method, Ev.path, R, Ev.mirror>>)
  /\ IF R.panic # "none" THEN TRUE
     ELSE /\ Check("C13", R.rname = rt.cfg.name, <<"router name", R.rname>>)
          /\ IF rt.cfg.trace /\ Ev.method = "TRACE"
             THEN /\ Check("C18", R.kind = "trace", <<"TRACE not answered by the trace handler", Ev.path, R.kind>>)
                  /\ Check("C09", R.order = Reverse(rt.use), <<"order TRACE", R.order>>)
                  /\ Check("C18", R.order = Reverse(rt.use), <<"TRACE wrapped in more than Use", R.order>>)
             ELSE /\ Check("C18", R.kind # "trace", <<"trace handler without WithTrace", Ev.path>>)
                  /\ IF Ev.path \in {"", "*"} THEN ServeRoot /\ ServeRootTrace ELSE ServeGeneral

\* ------------------------------------------------------------------ URL / CheckSyntax
TrURL ==
  /\ Ev.ev = "url" /\ UNCHANGED <<rt, prevRt, lastEv, tt>>
  /\ LET pat == FullPat
         R0  == IF Ev.via = "mux" THEN [rt EXCEPT !.cfg.domain = ""] ELSE rt
         P   == PParse(pat)
         I0  == IF Ev.strict THEN rt.cfg.icpt ELSE <<>>      \* non-strict building knows no interceptors
         known == ReKnown(I0, P.atoms) /\ ~OddName(I0, P.atoms)
         U   == URLResult(R0, Ev.strict, pat, Ev.params, ReOK(I0, P.atoms))
     IN /\ Check("C05", Ev.res = "ok", <<"URL panicked", pat, Ev.res>>)
        /\ Check("C10", (Ev.res # "ok" \/ ~known \/ U.free) \/ (U.ok = Ev.ok /\ (U.ok => U.val = Ev.val)),
                 <<"url", Ev.via, Ev.strict, pat, Ev.params, "got", Ev.ok, Ev.val, "want", U.ok, U.val>>)
        /\ Check("C10", ("rtpath" \in DOMAIN Ev /\ P.err = "" /\ \A j \in ParamIdx(P.atoms) : ~P.atoms[j].ig)
                          => (Ev.ok /\ Ev.val = R0.cfg.domain \o Ev.rtpath),
                 <<"round trip", pat, Ev.params, Ev.val>>)
        /\ Check("C19", Ev.hasMirror => (Ev.mok = Ev.ok /\ Ev.mval = Ev.val /\ Ev.mres = Ev.res), <<"facade url", pat, Ev.val, Ev.mval>>)

TrSyntax ==
  /\ Ev.ev = "syntax" /\ UNCHANGED <<rt, prevRt, lastEv, tt>>
  /\ LET P == PParse(Ev.pat)
         known == ReKnown(<<>>, P.atoms) /\ ~OddName(<<>>, P.atoms)
     IN /\ Check("C05", Ev.res = "ok", <<"CheckSyntax panicked", Ev.pat>>)
        /\ Check("C17", Ev.res = "ok" =>
                 CASE P.err \in {"empty", "emptyName", "adjacent", "dupName"} -> ~Ev.ok
                   [] P.err = "" /\ known -> Ev.ok = ReOK(<<>>, P.atoms)
                   [] OTHER -> TRUE, <<"CheckSyntax", Ev.pat, Ev.ok, P.err>>)

\* C18: the bundled Trace helper replies 200, Content-Type message/http actually SENT, body = escaped dump
TrTraceHelper ==
  /\ Ev.ev = "tracehelper" /\ UNCHANGED <<rt, prevRt, lastEv, tt>>
  /\ Check("C05", Ev.res = "ok", <<"Trace helper panicked">>)
  /\ Check("C18", (Ev.res = "ok" /\ Ev.dumpok) => (Ev.status = 200 /\ Ev.ct = "message/http" /\ Ev.out = HtmlEscape(Ev.dump)),
           <<"trace helper", Ev.status, Ev.ct, Ev.out, Ev.dump>>)

\* C11 / C12: one request with CORS request headers; response headers as sent
HdrOf(h, k) == IF k \in DOMAIN h THEN h[k] ELSE ""
TrReq ==
  /\ Ev.ev = "req" /\ UNCHANGED <<rt, prevRt, lastEv, tt>>
  /\ LET q  == [method |-> Ev.method, path |-> Ev.path, origin |-> HdrOf(Ev.hdr, "Origin"),
                acrm |-> HdrOf(Ev.hdr, "Access-Control-Request-Method"), acrh |-> HdrOf(Ev.hdr, "Access-Control-Request-Headers")]
         O  == ServeOutcomes(rt, Ev.method, Ev.path)
         sv == \E o \in O : o.kind \in {"route", "opt", "rootopt", "trace"}
         al == IF R.pat \in Live(rt) THEN AllowSet(rt, R.pat) ELSE {}
         c  == rt.cfg.cors
     IN /\ Check("C05", R.panic = "none", <<"panic", Ev.method, Ev.path>>)
        /\ Check("C11", C11_NoMore(c, q, sv /\ R.kind \notin {"404", "405"}, al, Ev.resp), <<"grants more than configured", c, q, R.kind, Ev.resp>>)
        /\ Check("C12", C12_Exact(c, q, sv, al, Ev.resp), <<"not exactly as configured", c, q, R.kind, Ev.resp>>)

\* structural refinement, drift report: the shape of the REAL tree against Tree.tla driven by the same calls.
\* A difference is reported as TREE-DRIFT (a refactoring may legitimately change the shape), never as a verdict.
RECURSIVE SameShape2(_, _)
SameShape2(m, r) == /\ m.v = r.v /\ m.ms = ToSet(r.ms) /\ Len(m.ch) = Len(r.ch)
                    /\ \A i \in 1..Len(m.ch) : SameShape2(m.ch[i], r.ch[i])
TrDump ==
  /\ Ev.ev = "dump" /\ UNCHANGED <<rt, prevRt, lastEv, tt>>
  /\ IF tt.v = "?" \/ SameShape2(tt, Ev.tree) THEN TRUE ELSE PrintT("TREE-DRIFT " \o ToJson([line |-> l, model |-> tt, real |-> Ev.tree]))

TraceNext ==
  /\ l <= Len(Trace)
  /\ l' = l + 1
  /\ (TrReset \/ TrFacade \/ TrMisc \/ TrHandle \/ TrRemove \/ TrClean \/ TrUse \/ TrRoutes \/ TrServe \/ TrURL \/ TrSyntax \/ TrTraceHelper \/ TrReq \/ TrDump)
  /\ (l' > Len(Trace) => PrintT("TRACE-END " \o ToString(Len(Trace))))

Spec == Init /\ [][TraceNext]_vars
=============================================================================
