------------------------------ MODULE Matchers ------------------------------
(* C13 - C15: request matchers.  A matcher expression is a record            *)
(*   [t |-> "nil"] | [t |-> "hosts", domains] | [t |-> "pathver", param, versions]  *)
(*   | [t |-> "headerver", param, key, versions] | [t |-> "and", ms] | [t |-> "or", ms] *)
(* Eval(m, req, ps, mime) = [ok, path, ps]: whether it accepts, and the request *)
(* path / captured parameters it hands on.  A rejecting matcher - including an  *)
(* And whose earlier member had accepted - hands on what it RECEIVED.           *)
(* req = [path, host, accept]; mime = logged mime.ParseMediaType answer         *)
(*   [ok |-> BOOLEAN, params |-> [name |-> value]]                              *)
EXTENDS RouterOps

\* ---- C14: Host normalisation: strip a valid ':port' (last colon, digits only, may be empty), then IPv6 brackets, lower-case
ValidPort(s) == Len(s) >= 1 /\ Ch(s, 1) = ":" /\ AllIn(Drop(s, 1), Digits)
NormHost(h) ==
  LET i  == LastCh(h, ":", Len(h))
      h1 == IF i # 0 /\ ValidPort(Drop(h, i - 1)) THEN Take(h, i - 1) ELSE h
      h2 == IF HasPrefix(h1, "[") /\ HasSuffix(h1, "]") THEN SubSeq(h1, 2, Len(h1) - 1) ELSE h1
  IN Lower(h2)

\* a Hosts matcher is a route table over domain patterns (every domain registered with GET)
HostsMatch(HR, host) ==
  LET h == NormHost(host)
      O == IF h \in {"", "*"} THEN {} ELSE Resolve(AtomsOf(HR), HR.cfg.icpt, h)
  IN [ok |-> O # {}, outs |-> O]

\* a Hosts matcher built from a fixed domain list (domains are lower-cased on Add)
RECURSIVE HostsFromAt(_, _, _)
HostsFromAt(HR, domains, i) ==
  IF i > Len(domains) THEN HR
  ELSE HostsFromAt(DoHandle(HR, Lower(domains[i]), "d", <<>>, <<"GET">>), domains, i + 1)
HostsCfg == [name |-> "host", trace |-> FALSE, icpt |-> <<>>, domain |-> ""]
HostsFrom(domains) == HostsFromAt(NewRouter(HostsCfg), domains, 1)

\* ---- C15: version matchers
NormVer(v) == LET a == IF Ch(v, 1) # "/" THEN "/" \o v ELSE v
              IN IF Ch(a, Len(a)) # "/" THEN a \o "/" ELSE a
RECURSIVE FirstVer(_, _, _)
FirstVer(versions, path, i) == IF i > Len(versions) THEN 0
                               ELSE IF HasPrefix(path, NormVer(versions[i])) THEN i ELSE FirstVer(versions, path, i + 1)
PathVerEval(m, path, ps) ==
  LET i == FirstVer(m.versions, path, 1) IN
  IF i = 0 THEN [ok |-> FALSE, path |-> path, ps |-> ps]
  ELSE LET vv == Take(NormVer(m.versions[i]), Len(NormVer(m.versions[i])) - 1)
       IN [ok |-> TRUE, path |-> Drop(path, Len(vv)), ps |-> IF m.param = "" THEN ps ELSE (m.param :> vv) @@ ps]

HeaderVerEval(m, accept, ps, mime) ==
  LET key == IF m.key = "" THEN "version" ELSE m.key
      has == accept # "" /\ mime.ok /\ key \in DOMAIN mime.params /\ mime.params[key] \in ToSet(m.versions)
  IN IF ~has THEN [ok |-> FALSE, ps |-> ps]
     ELSE [ok |-> TRUE, ps |-> IF m.param = "" THEN ps ELSE (m.param :> mime.params[key]) @@ ps]

\* ---- C13: composition.  Returns the SET of admissible results (Hosts may leave the winner open).
RECURSIVE Eval(_, _, _, _, _)
RECURSIVE AndFrom(_, _, _, _, _, _, _)
RECURSIVE OrFrom(_, _, _, _, _, _)
Eval(m, req, path, ps, env) ==
  CASE m.t = "nil" -> {[ok |-> TRUE, path |-> path, ps |-> ps]}
    [] m.t = "hosts" -> LET r == HostsMatch(HostsFrom(m.domains), req.host)
                        IN IF ~r.ok THEN {[ok |-> FALSE, path |-> path, ps |-> ps]}
                           ELSE {[ok |-> TRUE, path |-> path, ps |-> o[2] @@ ps] : o \in r.outs}
    [] m.t = "pathver" -> {PathVerEval(m, path, ps)}
    [] m.t = "headerver" -> LET r == HeaderVerEval(m, req.accept, ps, env.mime) IN {[ok |-> r.ok, path |-> path, ps |-> r.ps]}
    [] m.t = "and" -> AndFrom(m.ms, 1, req, path, ps, [ok |-> TRUE, path |-> path, ps |-> ps], env)
    [] m.t = "or"  -> OrFrom(m.ms, 1, req, path, ps, env)
\* cur: what the members so far produced; a rejection anywhere returns what the And RECEIVED (path0, ps0)
AndFrom(ms, i, req, path0, ps0, cur, env) ==
  IF i > Len(ms) THEN {cur}
  ELSE UNION {IF r.ok THEN AndFrom(ms, i + 1, req, path0, ps0, r, env) ELSE {[ok |-> FALSE, path |-> path0, ps |-> ps0]}
              : r \in Eval(ms[i], req, cur.path, cur.ps, env)}
OrFrom(ms, i, req, path, ps, env) ==
  IF i > Len(ms) THEN {[ok |-> FALSE, path |-> path, ps |-> ps]}
  ELSE UNION {IF r.ok THEN {r} ELSE OrFrom(ms, i + 1, req, path, ps, env) : r \in Eval(ms[i], req, path, ps, env)}
=============================================================================
