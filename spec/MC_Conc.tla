------------------------------ MODULE MC_Conc ------------------------------
(* Generator of concurrent PROGRAMS (one op list per goroutine) for C06/C07. *)
(* Run with -simulate: every behaviour fills the goroutines' lists op by op.  *)
EXTENDS Matchers, Json
CONSTANTS Mode, K, Iter, Stress
VARIABLES progs, pos
vars == <<progs, pos>>

StdI == [digit |-> "digit", word |-> "word", any |-> "any"]
\* the quiescent router also carries a CORS configuration with an explicit header list (request-time CORS processing must not write)
CorsQ == [on |-> TRUE, origins |-> <<"https://o1.example">>, allow |-> <<"Content-Type", "X-A">>, expose |-> <<>>, maxage |-> 0, cred |-> FALSE]
CorsOff == [on |-> FALSE, origins |-> <<>>, allow |-> <<>>, expose |-> <<>>, maxage |-> 0, cred |-> FALSE]
CfgC(lock) == [name |-> "r1", trace |-> FALSE, lock |-> lock, icpt |-> StdI, domain |-> "", recovery |-> Mode = "c07quiet",
               cors |-> IF Mode = "c07quiet" THEN CorsQ ELSE CorsOff]
Op0 == [op |-> "", inst |-> "", pat |-> "", methods |-> <<>>, val |-> "", method |-> "", path |-> "", host |-> "", strict |-> FALSE,
        params |-> <<>>, key |-> "", hdr |-> <<>>, prefix |-> "", domains |-> <<>>, faults |-> <<>>]
New(n)          == [Op0 EXCEPT !.op = "new", !.inst = n]
Hd(n, p, ms, h) == [Op0 EXCEPT !.op = "handle", !.inst = n, !.pat = p, !.methods = ms, !.val = h]
Rm(n, p, ms)    == [Op0 EXCEPT !.op = "remove", !.inst = n, !.pat = p, !.methods = ms]
Cl(n, pre)      == [Op0 EXCEPT !.op = "clean", !.inst = n, !.prefix = pre]
Sv(n, m, path, wit, wps) == [Op0 EXCEPT !.op = "serve", !.inst = n, !.method = m, !.path = path, !.key = wit, !.hdr = wps]
SvH(n, m, path, wit, wps, rq) == [Sv(n, m, path, wit, wps) EXCEPT !.params = rq]                 \* with request headers (carried in params)
SvF(n, m, path, wit, wps, f) == [Sv(n, m, path, wit, wps) EXCEPT !.faults = f]     \* the handler panics; the router's recovery contains it
Rt(n)           == [Op0 EXCEPT !.op = "routes", !.inst = n]
Ur(n, st, p, ps) == [Op0 EXCEPT !.op = "url", !.inst = n, !.strict = st, !.pat = p, !.params = ps]
HAd(n, d)       == [Op0 EXCEPT !.op = "hadd", !.inst = n, !.domains = <<d>>]
HDl(n, d)       == [Op0 EXCEPT !.op = "hdelete", !.inst = n, !.pat = d]
GSv(n, m, path, host) == [Op0 EXCEPT !.op = "gserve", !.inst = n, !.method = m, !.path = path, !.host = host]
HMt(n, host, wit, wps) == [Op0 EXCEPT !.op = "hmatch", !.inst = n, !.host = host, !.key = wit, !.hdr = wps]
G == <<"GET">>  P == <<"POST">>

\* ---- the table every C06 / quiescent case starts from: a split-prone pair, a parameter route, six literal siblings + parameter
Setup(n) == <<New(n), Hd(n, "/posts/author", G, "hA"), Hd(n, "/u/{id}/x", G, "hU"), Hd(n, "/s/a", G, "sa"), Hd(n, "/s/b", G, "sb"), Hd(n, "/s/c", G, "sc"),
              Hd(n, "/s/d", G, "sd"), Hd(n, "/s/e", G, "se"), Hd(n, "/s/{id}", G, "sid")>>
\* writers: registrations that split / re-merge the nodes of untouched routes, removals, Clean; handler ids are made unique by TagW
WOps(n) == {Hd(n, "/posts/abc", G, ""), Rm(n, "/posts/abc", <<>>), Hd(n, "/posts/author", P, ""), Rm(n, "/posts/author", P), Cl(n, "/posts/ab"),
            Hd(n, "/u/{id}/y", G, ""), Rm(n, "/u/{id}/y", <<>>), Hd(n, "/s/f", G, ""), Rm(n, "/s/f", <<>>), Rm(n, "/s/a", <<>>), Hd(n, "/s/a", G, ""),
            Hd(n, "/u/{uid}/x", G, ""), Cl(n, "/s/f"),
            \* regexp rules are compiled at registration time (and by non-strict URL building, which takes no lock)
            Hd(n, "/r/{id:\\d+}", G, ""), Rm(n, "/r/{id:\\d+}", <<>>), Hd(n, "/r/{w:[a-z]+}x", G, ""),
            \* method sets nobody in the process has used before (the process-wide method-set memo grows while readers read it)
            Hd(n, "/posts/abc", <<"PUT">>, ""), Hd(n, "/s/f", <<"DELETE", "PATCH">>, ""), Hd(n, "/u/{id}/y", <<"PUT", "CONNECT">>, ""),
            \* ... and partial removals that leave a method set no registration ever passed through
            Rm(n, "/s/f", <<"PATCH">>), Rm(n, "/u/{id}/y", <<"PUT">>)}
ROps(n) == {Sv(n, "GET", "/posts/author", "/posts/author", <<>>), Sv(n, "GET", "/posts/abc", "/posts/abc", <<>>), Sv(n, "POST", "/posts/author", "/posts/author", <<>>),
            Sv(n, "OPTIONS", "/posts/author", "/posts/author", <<>>), Sv(n, "GET", "/u/7q/x", "/u/{id}/x", [id |-> "7q"]), Sv(n, "GET", "/u/7q/y", "/u/{id}/y", [id |-> "7q"]),
            Sv(n, "GET", "/s/a", "/s/a", <<>>), Sv(n, "GET", "/s/7q", "/s/{id}", [id |-> "7q"]), Sv(n, "GET", "/s/f", "/s/f", <<>>), Sv(n, "OPTIONS", "*", "", <<>>),
            Sv(n, "GET", "/r/77", "/r/{id:\\d+}", [id |-> "77"]), Ur(n, FALSE, "/q/{id:\\w+}", [id |-> "5"]), Ur(n, FALSE, "/q/{id:[0-9]+}/z", [id |-> "5"]),
            Rt(n), Ur(n, TRUE, "/posts/author", [a |-> "1"]), Ur(n, TRUE, "/u/{id}/x", [id |-> "5"]), Ur(n, TRUE, "/posts/abc", <<>>)}
HOpsC(n) == {HAd(n, "a.example.com"), HAd(n, "{sub}.example.com"), HDl(n, "A.example.com"), HDl(n, "{sub}.example.com"),
             HMt(n, "a.example.com", "a.example.com", <<>>), HMt(n, "7q.example.com:80", "{sub}.example.com", [sub |-> "7q"]), HMt(n, "zz.other.com", "", <<>>)}

\* goroutine roles per mode: sequence of [kind, inst]
Roles == CASE Mode = "c06"      -> <<[k |-> "w", n |-> "r1"], [k |-> "w", n |-> "r1"], [k |-> "r", n |-> "r1"], [k |-> "r", n |-> "r1"]>>
           [] Mode = "c07inst"  -> <<[k |-> "own", n |-> "r1"], [k |-> "own", n |-> "r2"], [k |-> "hosts", n |-> "h1"], [k |-> "hosts", n |-> "h2"]>>
           [] Mode = "c07quiet" -> <<[k |-> "r", n |-> "r1"], [k |-> "r", n |-> "r1"], [k |-> "r", n |-> "r1"], [k |-> "r", n |-> "r1"]>>
           [] Mode = "c07seq"   -> <<[k |-> "seq", n |-> ""]>>
           [] Mode = "c07fresh" -> <<[k |-> "fresh", n |-> "r1"]>>
           [] Mode = "c07group" -> <<[k |-> "grp", n |-> "g1"], [k |-> "grp", n |-> "g1"], [k |-> "grp", n |-> "g1"], [k |-> "r", n |-> "r1"]>>
QOps(n) == ROps(n) \cup {SvF(n, "GET", "/posts/author", "/posts/author", <<>>, [x \in {"h:route"} |-> "error"]),
                        SvF(n, "GET", "/nope/zz", "", <<>>, [x \in {"h:404"} |-> "string"]),
                        SvH(n, "OPTIONS", "/posts/author", "/posts/author", <<>>, [Origin |-> "https://o1.example"] @@ ("Access-Control-Request-Method" :> "GET")
                                                                                  @@ ("Access-Control-Request-Headers" :> "content-type, x-a")),
                        SvH(n, "GET", "/s/a", "/s/a", <<>>, [Origin |-> "https://o1.example"])}
\* "fresh": EVERY sequence of K calls that change method sets several at a time, each run in a process of its own (nothing in
\* the process has ever built a method set before), followed by the reads that show the sets
FOps(n) == {Hd(n, "/s/f", <<"DELETE", "PATCH">>, ""), Hd(n, "/posts/abc", <<"PUT">>, ""), Hd(n, "/u/{id}/y", <<"PUT", "CONNECT">>, ""), Hd(n, "/s/f", G, ""),
            Rm(n, "/s/f", <<"PATCH">>), Rm(n, "/u/{id}/y", <<"PUT">>), Rm(n, "/s/a", <<>>), Cl(n, "/s/f")}
\* ... and by a BRAND-NEW router (no route ever registered on it) asked for its root entry: what it answers must not depend on what r1 did
Suffix(role) == IF role.k = "fresh" THEN <<Sv(role.n, "OPTIONS", "*", "", <<>>), Rt(role.n), Sv(role.n, "OPTIONS", "/s/f", "/s/f", <<>>), Sv(role.n, "PATCH", "/u/7q/y", "/u/{id}/y", [id |-> "7q"]),
                                            New("r9"), Sv("r9", "OPTIONS", "*", "", <<>>), Rt("r9")>>
                ELSE <<>>
OpsFor(role) == CASE role.k = "w" -> WOps(role.n)
                  [] role.k = "fresh" -> FOps(role.n)
                  [] role.k = "r" -> IF Mode = "c07quiet" THEN QOps(role.n) ELSE ROps(role.n)
                  [] role.k = "own" -> WOps(role.n) \cup ROps(role.n)
                  [] role.k = "hosts" -> HOpsC(role.n)
                  [] role.k = "grp" -> {GSv(role.n, "GET", "/x", "a.com"), GSv(role.n, "GET", "/7q", "a.com"), GSv(role.n, "GET", "/v1/x", "zz.com"), GSv(role.n, "GET", "/v1/8w", "zz.com"),
                                        GSv(role.n, "GET", "/nope", "zz.com"), GSv(role.n, "POST", "/y/z", "b.com"),
                                        GSv(role.n, "GET", "/v2/x", "zz.com"), GSv(role.n, "GET", "/v2/nope", "zz.com"), GSv(role.n, "GET", "/v2/7q/8w", "b.com")}
                  [] role.k = "seq" -> WOps("r1") \cup ROps("r1") \cup ROps("r2") \cup {New("r2"), Hd("r2", "/posts/author", P, "")} \cup {x \in WOps("r3") : x.op = "handle"}
\* on the quiescent router every goroutine's FIRST request is the same CORS preflight, released together: whatever the request
\* path initialises lazily is initialised by all of them at once
Preflight(n) == SvH(n, "OPTIONS", "/posts/author", "/posts/author", <<>>, [Origin |-> "https://o1.example"] @@ ("Access-Control-Request-Method" :> "GET")
                                                                           @@ ("Access-Control-Request-Headers" :> "content-type, x-a"))
Prefix(role) == IF role.k = "own" THEN Setup(role.n) ELSE IF role.k = "hosts" THEN <<New(role.n)>>
                ELSE IF Mode = "c07quiet" THEN <<Preflight(role.n)>> ELSE <<>>
SetupOps == CASE Mode \in {"c06", "c07quiet"} -> Setup("r1")
              \* the very first thing the process does: a new router, never given a route, is asked for its root entry
              [] Mode = "c07fresh" -> <<New("r0"), Sv("r0", "OPTIONS", "*", "", <<>>), Rt("r0")>> \o Setup("r1")
              [] Mode = "c07group" -> <<New("g1")>> \o Setup("r1")
              [] Mode = "c07seq" -> <<New("r1"), New("r3")>>
              [] OTHER -> <<>>

Init == progs = [i \in 1..Len(Roles) |-> <<>>] /\ pos = 1
TagW(o, g, i) == IF o.op = "handle" THEN [o EXCEPT !.val = "w" \o ToString(g) \o "_" \o ToString(i)] ELSE o
Next == /\ pos <= Len(Roles)
        /\ \E o \in OpsFor(Roles[pos]) :
              \* an instance is used only after the program created it, and created at most once
              /\ (Roles[pos].k = "seq" /\ o.inst = "r2") =>
                    ((o.op = "new") = (\A i \in 1..Len(progs[pos]) : progs[pos][i] # New("r2")))
              /\ progs' = [progs EXCEPT ![pos] = Append(@, TagW(o, pos, Len(@) + 1))]
              /\ pos' = IF Len(progs[pos]) + 1 >= K THEN pos + 1 ELSE pos
Spec == Init /\ [][Next]_vars

Full == pos > Len(Roles)
CaseOf(lock, procs) == [fam |-> "conc", cfg |-> CfgC(lock), n |-> Iter, stress |-> Stress, procs |-> procs, ops |-> SetupOps,
                        progs |-> [i \in 1..Len(Roles) |-> Prefix(Roles[i]) \o progs[i] \o Suffix(Roles[i])]]
Emit == Full => /\ PrintT("CASE " \o ToJson(CaseOf(TRUE, 4)))
                /\ (Mode # "c06" => PrintT("CASE " \o ToJson(CaseOf(FALSE, 8))))
=============================================================================
