----------------------------- MODULE Trace_Tree -----------------------------
(* Traces recorded by the verif call-trace hooks of internal/tree from ANY   *)
(* execution - in particular the repository's own test suite - validated     *)
(* against RouterOps: every dispatch those tests already perform is checked   *)
(* for soundness (C01), lifecycle (C03), method sets (C04) and, on add-only   *)
(* trees over interpreted patterns, admissible resolution (C02).              *)
EXTENDS RouterOps, Json
CONSTANTS File, Props
Trace == ndJsonDeserialize(File)
VARIABLES ts, l          \* ts: tree id -> router value
vars == <<ts, l>>
Ev == Trace[l]
Check(id, cond, info) ==
  IF id \notin Props THEN TRUE
  ELSE IF cond THEN TRUE
  ELSE PrintT("MISMATCH " \o ToJson([id |-> id, line |-> l, info |-> info]))
Put(f, k, v) == [x \in DOMAIN f \cup {k} |-> IF x = k THEN v ELSE f[x]]
CfgOf == [name |-> Ev.name, trace |-> Ev.trace, icpt |-> Ev.icpt, domain |-> ""]
\* the tree's value, with the interceptor table as reported now (RegisterInterceptor may extend it)
Cur == IF Ev.tree \in DOMAIN ts THEN [ts[Ev.tree] EXCEPT !.cfg = CfgOf] ELSE NewRouter(CfgOf)
\* patterns and interceptors the specification interprets
Interp(R) == /\ \A r \in DOMAIN R.cfg.icpt : R.cfg.icpt[r] \in {"digit", "word", "any"}
             /\ \A p \in Live(R) : Len(p) <= MaxPat /\ Parse(p).err = "" /\ InVocab(R.cfg.icpt, R.tab[p].atoms)
Init == ts = <<>> /\ l = 1
TrAdd == Ev.ev = "add" /\ ts' = Put(ts, Ev.tree, DoHandle(Cur, Ev.pat, "h", <<>>, Ev.methods))
TrRemove == Ev.ev = "remove" /\ ts' = Put(ts, Ev.tree, DoRemove(Cur, Ev.pat, Ev.methods))
TrClean == Ev.ev = "clean" /\ ts' = Put(ts, Ev.tree, DoClean(Cur, Ev.pat))
TrServe ==
  /\ Ev.ev = "serve" /\ UNCHANGED ts
  /\ LET R == Cur
         root == Ev.path \in {"", "*"} \/ (R.cfg.trace /\ Ev.method = "TRACE")
         ip == Interp(R)
     IN IF root THEN TRUE ELSE
        /\ Check("C01", Ev.hasNode => Ev.pat \in Live(R), <<"served by a pattern that is not registered", Ev.name, Ev.path, Ev.pat>>)
        /\ Check("C03", Ev.hasNode => Ev.pat \in Live(R), <<"removed pattern still served", Ev.name, Ev.path, Ev.pat>>)
        /\ Check("C01", (Ev.hasNode /\ Ev.pat \in Live(R) /\ ip) =>
                          \* a Group's matcher may have captured parameters before the tree was consulted: extra names are not the tree's
                          (CapNames(R.tab[Ev.pat].atoms) \subseteq DOMAIN Ev.params /\ Fits(R.cfg.icpt, R.tab[Ev.pat].atoms, 1, Ev.path, Ev.params)),
                 <<"unsound", Ev.name, Ev.path, Ev.pat, Ev.params>>)
        /\ Check("C04", (Ev.hasNode /\ Ev.pat \in Live(R)) => ToSet(Ev.allow) = AllowSet(R, Ev.pat), <<"method set", Ev.name, Ev.pat, Ev.allow, AllowSet(R, Ev.pat)>>)
        /\ Check("C03", (Ev.hasNode /\ Ev.pat \in Live(R)) => (Ev.ok = (Ev.method \in AllowSet(R, Ev.pat) /\ Ev.method # "")),
                 <<"served / not served method", Ev.name, Ev.pat, Ev.method, Ev.ok>>)
        /\ Check("C02", (ip /\ R.addOnly) => LET O == Resolve(AtomsOf(R), R.cfg.icpt, Ev.path) IN
                                              IF O = {} THEN ~Ev.hasNode
                                              ELSE Ev.hasNode /\ \E o \in O : o[1] = Ev.pat /\ \A k \in DOMAIN o[2] : k \in DOMAIN Ev.params /\ Ev.params[k] = o[2][k],
                 <<"resolution", Ev.name, Ev.path, Ev.hasNode, Ev.pat, Ev.params>>)
Next == /\ l <= Len(Trace) /\ l' = l + 1
        /\ (TrAdd \/ TrRemove \/ TrClean \/ TrServe)
        /\ (l' > Len(Trace) => PrintT("TRACE-END " \o ToString(Len(Trace))))
Spec == Init /\ [][Next]_vars
=============================================================================
