------------------------------ MODULE MC_Cors ------------------------------
(* Generator and design-level check for C11/C12: the exhaustive product of   *)
(* configuration classes x request classes on a fixed route table.           *)
EXTENDS Cors, Json, TLC
VARIABLE cfg
O1 == "https://o1.example"   O2 == "https://o2.example"
OriginsC == {<<>>, <<"*">>, <<O1>>, <<O1, O2>>, <<"*", O1>>, <<O2, O1, O2>>}
AllowC   == {<<>>, <<"*">>, <<"*", "X-A">>, <<"Content-Type">>, <<"Content-Type", "X-A">>, <<"Content-Type", "X-CSRF-Token", "X-Client-Id", "content-length">>}
ExposeC  == {<<>>, <<"E1", "E2">>, <<"*", "E1">>}
MaxAgeC  == {0, -1, 50, -2}
CorsCfgs == {[on |-> TRUE, origins |-> o, allow |-> a, expose |-> e, maxage |-> m, cred |-> c] :
               o \in OriginsC, a \in AllowC, e \in ExposeC, m \in MaxAgeC, c \in BOOLEAN}
             \cup {[on |-> FALSE, origins |-> <<>>, allow |-> <<>>, expose |-> <<>>, maxage |-> 0, cred |-> FALSE]}
Rq(m, p, o, rm, rh) == [op |-> "req", method |-> m, path |-> p,
                        hdr |-> (IF o = "" THEN <<>> ELSE [Origin |-> o])
                                @@ (IF rm = "" THEN <<>> ELSE ("Access-Control-Request-Method" :> rm))
                                @@ (IF rh = "-" THEN <<>> ELSE ("Access-Control-Request-Headers" :> rh))]
ReqsC == {Rq(m, p, o, rm, rh) : m \in {"GET", "HEAD", "POST", "OPTIONS", "PUT", ""}, p \in {"/a", "/b", "/missing", "*"},
                                o \in {"", O1, O2, "https://evil.example", "HTTPS://O1.EXAMPLE"},
                                rm \in {"", "POST", "DELETE", "post"},
                                rh \in {"-", "", "Content-Type", "content-type", "X-Evil", "Content-Type , x-a", " X-A,content-TYPE ", "X-A,,Content-Type",
                                       "Content", "ontent-Typ", "X-", "content-type,x-evil", "x-client-id", "X-CLIENT-ID, x-csrf-token", "Accept", "accept-language, x-a"}}
BaseOps == <<[op |-> "handle", pat |-> "/a", methods |-> <<"GET", "POST">>, mws |-> <<>>, chain |-> <<>>, res |-> FALSE],
             [op |-> "handle", pat |-> "/b", methods |-> <<"DELETE">>, mws |-> <<>>, chain |-> <<>>, res |-> FALSE]>>

Init == cfg \in CorsCfgs
Next == UNCHANGED cfg
Spec == Init /\ [][Next]_cfg

CaseOf == [fam |-> "router", battery |-> "none", ops |-> BaseOps, reqs |-> ReqsC,
           cfg |-> [name |-> "r", trace |-> FALSE, lock |-> FALSE, icpt |-> <<>>, domain |-> "", cors |-> cfg]]
\* a second case per configuration: preflights INTERLEAVED with registrations / removals on the same pattern
\* (the Allow-Methods of a preflight must follow the route's current method set)
Hd(p, ms) == [op |-> "handle", pat |-> p, methods |-> ms, mws |-> <<>>, chain |-> <<>>, res |-> FALSE]
RmO(p, ms) == [op |-> "remove", pat |-> p, methods |-> ms, mws |-> <<>>, chain |-> <<>>, res |-> FALSE]
Pre(p, rm) == Rq("OPTIONS", p, O1, rm, "Content-Type")
DynOps == BaseOps \o <<Pre("/a", "POST"), Pre("/a", "DELETE"), Hd("/a", <<"DELETE">>), Pre("/a", "DELETE"), Pre("/a", "POST"), Rq("DELETE", "/a", O1, "", "-"),
                        RmO("/a", <<"POST">>), Pre("/a", "POST"), Pre("/a", "DELETE"),
                        RmO("/a", <<"DELETE">>), Hd("/a", <<"PUT">>), Pre("/a", "PUT"), Pre("/a", "DELETE"),   \* a SAME-SIZE change of the method set between two preflights
                        Pre("/b", "DELETE"), Hd("/b", <<"PUT">>), Pre("/b", "PUT"),
                        RmO("/b", <<>>), Pre("/b", "PUT"), Hd("/b", <<"GET">>), Pre("/b", "GET"), Pre("/b", "HEAD"), Pre("/b", "DELETE"),
                        Hd("/c", <<"GET", "POST">>), Pre("/c", "GET"), RmO("/c", <<"GET", "HEAD">>), Pre("/c", "GET"), Pre("/c", "POST"), Pre("/c", "HEAD"),
                        RmO("/c", <<"OPTIONS", "POST">>), Pre("/c", "POST"), Rq("POST", "/c", O1, "", "-")>>
DynCase == [fam |-> "router", battery |-> "none", ops |-> DynOps, reqs |-> {},
            cfg |-> [name |-> "r", trace |-> FALSE, lock |-> FALSE, icpt |-> <<>>, domain |-> "", cors |-> cfg]]
ReqsSmall == {Rq(m, p, o, rm, rh) : m \in {"GET", "OPTIONS", "PUT"}, p \in {"/a", "/missing", "*"}, o \in {"", O1, "https://evil.example"},
                                    rm \in {"", "POST", "DELETE"}, rh \in {"-", "content-type", "X-Evil", " X-A,content-TYPE "}}
\* a third case for some configurations: an EARLIER WithCORS option (allow everything) precedes the configuration in the
\* option list; options apply in order, so the reply is the one the LAST option prescribes
AllowAll == [on |-> TRUE, origins |-> <<"*">>, allow |-> <<"*">>, expose |-> <<"E9">>, maxage |-> 7, cred |-> FALSE]
Stacked == cfg.on /\ cfg.maxage = 0 /\ ~cfg.cred /\ cfg.expose = <<>> /\ cfg.origins \in {<<>>, <<O1>>}
PreCase == [fam |-> "router", battery |-> "none", ops |-> BaseOps, reqs |-> ReqsSmall,
            cfg |-> [name |-> "r", trace |-> FALSE, lock |-> FALSE, icpt |-> <<>>, domain |-> "", cors |-> cfg, corspre |-> AllowAll]]
Emit == PrintT("CASE " \o ToJson(CaseOf)) /\ PrintT("CASE " \o ToJson(DynCase)) /\ (Stacked => PrintT("CASE " \o ToJson(PreCase)))

\* design-level sanity: an ideal reply built from the decision table satisfies both properties,
\* and C12's grant implies C11's permission (the two statements are consistent)
Allow(p) == IF p = "/a" THEN {"GET", "POST", "HEAD", "OPTIONS"} ELSE IF p = "/b" THEN {"DELETE", "OPTIONS"} ELSE IF p = "*" THEN {"OPTIONS", "GET", "POST", "DELETE"} ELSE {}
Served(m, p) == m \in Allow(p) /\ (p = "*" => m = "OPTIONS")
ReqOf(r) == [method |-> r.method, path |-> r.path,
             origin |-> IF "Origin" \in DOMAIN r.hdr THEN r.hdr["Origin"] ELSE "",
             acrm |-> IF "Access-Control-Request-Method" \in DOMAIN r.hdr THEN r.hdr["Access-Control-Request-Method"] ELSE "",
             acrh |-> IF "Access-Control-Request-Headers" \in DOMAIN r.hdr THEN r.hdr["Access-Control-Request-Headers"] ELSE ""]
Join(seq) == LET RECURSIVE j(_) j(i) == IF i > Len(seq) THEN "" ELSE (IF i > 1 THEN "," ELSE "") \o seq[i] \o j(i + 1) IN j(1)
SetStr(S) == LET RECURSIVE f(_) f(T) == IF T = {} THEN "" ELSE LET x == CHOOSE x \in T : TRUE IN x \o (IF T = {x} THEN "" ELSE ", ") \o f(T \ {x}) IN f(S)
Ideal(c, q, served, allow) ==
  LET g == Granted(c, q, served, allow)  pre == Preflight(q) IN
  [acao |-> IF g THEN <<GrantedOrigin(c, q)>> ELSE <<>>,
   acac |-> IF g /\ c.cred THEN <<"true">> ELSE <<>>,
   aceh |-> IF g /\ Len(c.expose) > 0 THEN <<Join(c.expose)>> ELSE <<>>,
   acam |-> IF g /\ pre THEN <<SetStr(allow)>> ELSE <<>>,
   acah |-> IF g /\ pre /\ Len(c.allow) > 0 THEN <<IF AnyHeader(c) THEN "*,Authorization" ELSE Join(c.allow)>> ELSE <<>>,
   acma |-> IF g /\ pre /\ c.maxage # 0 THEN <<ToString(c.maxage)>> ELSE <<>>,
   vary |-> (IF g /\ ~AnyOrigin(c) THEN <<"Origin">> ELSE <<>>) \o (IF g /\ pre THEN <<"Access-Control-Request-Method">> ELSE <<>>)
            \o (IF g /\ pre /\ Len(c.allow) > 0 THEN <<"Access-Control-Request-Headers">> ELSE <<>>)]
Consistent(Rs) ==
  ConfigBad(cfg) \/ \A r \in Rs :
     LET q == ReqOf(r)  sv == Served(q.method, q.path)  al == Allow(q.path)  id == Ideal(cfg, q, sv, al)
     IN C11_NoMore(cfg, q, sv, al, id) /\ C12_Exact(cfg, q, sv, al, id)
DecisionConsistent == Consistent(ReqsC)
DecisionConsistentSmall == Consistent(ReqsSmall)
=============================================================================
