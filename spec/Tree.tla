-------------------------------- MODULE Tree --------------------------------
(* Structural refinement: what internal/tree really builds - a radix tree of *)
(* segments with ordered children - transcribed operation by operation from   *)
(* the (repaired) code: addSegment / longestPrefix / splitNode / sort by      *)
(* priority, Remove with its pruning chain, clean(prefix), and matchChildren  *)
(* (the first-byte index is a DERIVED function: it only short-cuts the scan   *)
(* over literal children whose first bytes are pairwise different).           *)
(* TLC checks that this tree REFINES the abstract router of RouterOps.tla:    *)
(*   - the patterns with handlers are exactly the table (after any history),  *)
(*   - on add-only histories the tree's answer for every probe path is one of *)
(*     the admissible outcomes Res of Resolve.tla (so the oracle used by the   *)
(*     trace specifications is a sound abstraction of the documented walk),    *)
(*   - witness paths of live routes keep resolving admissibly after removals.  *)
(* A node is [v : segment text, ms : set of methods with handlers,            *)
(*            ch : sequence of child nodes].                                   *)
EXTENDS RouterOps, Integers

Leaf(v, ms) == [v |-> v, ms |-> ms, ch |-> <<>>]
Root == Leaf("", {})

\* ---- segments (syntax.NewSegment)
IsPar(v)  == Len(v) > 0 /\ Ch(v, 1) = "{"
TokEnd(v) == FindCh(v, "}", 1)
Tok(v)    == LET a == ParseAt(Take(v, TokEnd(v)), 1, FALSE).atoms IN a[1]        \* the parameter atom of a parameter segment
Suffix(v) == Drop(v, TokEnd(v))
Endpoint(v) == IsPar(v) /\ Ch(v, Len(v)) = "}"
TypeOf(I, v) == IF IsPar(v) THEN KindOf(I, Tok(v)) ELSE 0
Priority(I, n) == TypeOf(I, n.v) * 10 + (IF Len(n.ch) = 0 THEN 1 ELSE 0) + (IF Endpoint(n.v) THEN 1 ELSE 0)

\* syntax.splitString: cut a pattern before every '{'
RECURSIVE SplitPat(_)
SplitPat(p) ==
  IF p = "" THEN <<>>
  ELSE LET i == FindCh(p, "{", 2) IN IF i = 0 THEN <<p>> ELSE <<Take(p, i - 1)>> \o SplitPat(Drop(p, i - 1))

\* syntax.longestPrefix (repaired version): never cuts inside braces, keeps >= 1 literal byte after a parameter
RECURSIVE LPFrom(_, _, _, _, _, _)
LPFrom(s1, s2, i, startIdx, endIdx, inTok) ==
  LET l == IF Len(s1) < Len(s2) THEN Len(s1) ELSE Len(s2) IN     \* indexes are 1-based here; -10 of the code is 0-9
  IF i > l THEN (IF endIdx = l THEN startIdx - 1 ELSE l)
  ELSE IF Ch(s1, i) # Ch(s2, i)
       THEN (IF inTok \/ endIdx + 1 = i THEN startIdx - 1 ELSE i - 1)
       ELSE LET c == Ch(s1, i) IN
            LPFrom(s1, s2, i + 1, IF c = "{" THEN i ELSE startIdx, IF c = "}" THEN i ELSE endIdx,
                   IF c = "{" THEN TRUE ELSE IF c = "}" THEN FALSE ELSE inTok)
\* result: number of common bytes usable as a split point (<= 0: none)
LongestPrefix(s1, s2) == LPFrom(s1, s2, 1, -8, -8, FALSE)
Similarity(I, cv, sv) == IF cv = sv THEN -1 ELSE IF TypeOf(I, cv) # TypeOf(I, sv) THEN 0 ELSE LongestPrefix(sv, cv)

\* slices.SortStableFunc by priority (insertion sort keeps equal elements in order)
RECURSIVE InsertSorted(_, _, _)
InsertSorted(I, sorted, n) ==
  IF sorted = <<>> THEN <<n>>
  ELSE IF Priority(I, sorted[Len(sorted)]) <= Priority(I, n) THEN Append(sorted, n)
  ELSE Append(InsertSorted(I, SubSeq(sorted, 1, Len(sorted) - 1), n), sorted[Len(sorted)])
RECURSIVE SortCh(_, _)
SortCh(I, ch) == IF ch = <<>> THEN <<>> ELSE InsertSorted(I, SortCh(I, SubSeq(ch, 1, Len(ch) - 1)), ch[Len(ch)])

SetCh(n, i, c) == [n EXCEPT !.ch = [n.ch EXCEPT ![i] = c]]
DelCh(n, i) == [n EXCEPT !.ch = SubSeq(n.ch, 1, i - 1) \o SubSeq(n.ch, i + 1, Len(n.ch))]
IdxOf(n, v) == LET S == {i \in 1..Len(n.ch) : n.ch[i].v = v} IN IF S = {} THEN 0 ELSE Min(S)

\* ---- Add: node.getNode / addSegment / splitNode.  AddSegs returns the new sub-tree with ms added at the target node.
RECURSIVE AddSegs(_, _, _, _)
RECURSIVE AddSeg(_, _, _, _, _)
AddSegs(I, n, segs, ms) == AddSeg(I, n, segs[1], SubSeq(segs, 2, Len(segs)), ms)
\* the node reached for `seg` below n then continues with `rest`
Continue(I, c, rest, ms) == IF rest = <<>> THEN [c EXCEPT !.ms = c.ms \cup ms] ELSE AddSegs(I, c, rest, ms)
AddSeg(I, n, seg, rest, ms) ==
  LET sims == [i \in 1..Len(n.ch) |-> Similarity(I, n.ch[i].v, seg)]
      same == {i \in 1..Len(n.ch) : sims[i] = -1}
  IN IF same # {} THEN LET i == Min(same) IN SetCh(n, i, Continue(I, n.ch[i], rest, ms))     \* existing child: no re-sort here
     ELSE LET best == IF Len(n.ch) = 0 THEN 0 ELSE Max({sims[i] : i \in 1..Len(n.ch)})
          IN IF best <= 0
             THEN \* new child, sorted while it still has no children, then filled
                  LET fresh == Leaf(seg, {})
                      sorted == SortCh(I, Append(n.ch, fresh))
                      n1 == [n EXCEPT !.ch = sorted]
                      j == IdxOf(n1, seg)
                  IN SetCh(n1, j, Continue(I, fresh, rest, ms))
             ELSE \* the most similar child (first one with the largest similarity)
                  LET i == Min({k \in 1..Len(n.ch) : sims[k] = best})
                      c == n.ch[i]
                  IN IF Len(c.v) <= best
                     THEN \* the child's text is a prefix of seg: no split, go on below it
                          SetCh(n, i, IF Len(seg) = best THEN Continue(I, c, rest, ms) ELSE AddSeg(I, c, Drop(seg, best), rest, ms))
                     ELSE \* splitNode: the child keeps its identity with the tail of its text below a new node holding the common prefix
                          LET tail == [c EXCEPT !.v = Drop(c.v, best)]
                              ret0 == [v |-> Take(c.v, best), ms |-> {}, ch |-> SortCh(I, <<tail>>)]
                              n1 == [n EXCEPT !.ch = SortCh(I, Append(DelCh(n, i).ch, ret0))]
                              j == IdxOf(n1, ret0.v)
                              ret1 == IF Len(seg) = best THEN Continue(I, ret0, rest, ms)
                                      ELSE AddSeg(I, ret0, Drop(seg, best), rest, ms)
                          IN SetCh(n1, j, ret1)
TreeAdd(I, t, pat, ms) == AddSegs(I, t, SplitPat(pat), ms)

\* ---- Find / Remove (with the pruning chain) / clean
RECURSIVE FindPath(_, _)          \* sequence of child indexes to the node whose path text is pat, or <<0>> when absent
FindPath(n, pat) ==
  LET hit == {i \in 1..Len(n.ch) : n.ch[i].v = pat}
      pre == {i \in 1..Len(n.ch) : Len(n.ch[i].v) < Len(pat) /\ HasPrefix(pat, n.ch[i].v)}
  IN IF hit # {} THEN <<Min(hit)>>
     ELSE LET try == {i \in pre : FindPath(n.ch[i], Drop(pat, Len(n.ch[i].v))) # <<0>>}
          IN IF try = {} THEN <<0>> ELSE <<Min(try)>> \o FindPath(n.ch[Min(try)], Drop(pat, Len(n.ch[Min(try)].v)))
RECURSIVE NodeAt(_, _)
NodeAt(n, path) == IF path = <<>> THEN n ELSE NodeAt(n.ch[path[1]], SubSeq(path, 2, Len(path)))
\* apply f at the node, then prune empty leaves on the way back up
RECURSIVE Rewrite(_, _, _)
Rewrite(n, path, newms) ==
  IF path = <<>> THEN [n EXCEPT !.ms = newms]
  ELSE LET c == Rewrite(n.ch[path[1]], SubSeq(path, 2, Len(path)), newms)
       IN IF c.ms = {} /\ c.ch = <<>> THEN DelCh(n, path[1]) ELSE SetCh(n, path[1], c)
TreeRemove(t, pat, methods) ==
  LET path == FindPath(t, pat) IN
  IF path = <<0>> THEN t
  ELSE LET n == NodeAt(t, path)
           keep == IF Len(methods) = 0 THEN {} ELSE n.ms \ ToSet(methods)
       IN Rewrite(t, path, keep)
RECURSIVE TreeClean(_, _)
TreeClean(n, prefix) ==
  IF prefix = "" THEN [n EXCEPT !.ch = <<>>]
  ELSE LET step(c) == IF Len(c.v) < Len(prefix) /\ HasPrefix(prefix, c.v) THEN TreeClean(c, Drop(prefix, Len(c.v))) ELSE c
           kept == SelectSeq([i \in 1..Len(n.ch) |-> step(n.ch[i])], LAMBDA c : ~HasPrefix(c.v, prefix))
       IN [n EXCEPT !.ch = kept]

\* ---- the table the tree stands for
RECURSIVE Pats(_, _)
Pats(n, pre) == (IF n.ms # {} /\ pre \o n.v # "" THEN {<<pre \o n.v, n.ms>>} ELSE {})
                \cup UNION {Pats(n.ch[i], pre \o n.v) : i \in 1..Len(n.ch)}
TreeTable(t) == Pats(t, "")

\* ---- matchChildren (segment.Match inlined); returns <<found, pattern text, params>>
\* shortest accepted capture for interceptor / named segments, leftmost-first greedy for regexp segments
RECURSIVE FirstAccepted(_, _, _, _, _)
FirstAccepted(I, a, S, rest, from) ==
  LET idx == IndexFrom(rest, S, from) IN
  IF idx = 0 THEN 0 ELSE IF Accepts(I, a, Take(rest, idx - 1)) THEN idx ELSE FirstAccepted(I, a, S, rest, idx + 1)
SegMatch(I, v, rest) ==                       \* [ok, rest', name, val, cap]
  IF ~IsPar(v) THEN [ok |-> HasPrefix(rest, v), rest |-> Drop(rest, Len(v)), cap |-> FALSE, name |-> "", val |-> ""]
  ELSE LET a == Tok(v)  S == Suffix(v)  k == KindOf(I, a) IN
       IF k = 2 THEN LET all == Caps(I, a, S, rest, 1) IN
                     IF all = {} THEN [ok |-> FALSE, rest |-> rest, cap |-> FALSE, name |-> "", val |-> ""]
                     ELSE LET idx == Max(all) IN [ok |-> TRUE, rest |-> Drop(rest, idx - 1 + Len(S)), cap |-> ~a.ig, name |-> a.name, val |-> Take(rest, idx - 1)]
       ELSE IF S = "" THEN [ok |-> Accepts(I, a, rest), rest |-> "", cap |-> ~a.ig, name |-> a.name, val |-> rest]
       ELSE LET idx == FirstAccepted(I, a, S, rest, 1) IN
            IF idx = 0 THEN [ok |-> FALSE, rest |-> rest, cap |-> FALSE, name |-> "", val |-> ""]
            ELSE [ok |-> TRUE, rest |-> Drop(rest, idx - 1 + Len(S)), cap |-> ~a.ig, name |-> a.name, val |-> Take(rest, idx - 1)]
RECURSIVE Match(_, _, _, _, _)
RECURSIVE TryFrom(_, _, _, _, _, _)
Match(I, n, pre, rest, ps) ==
  LET r == TryFrom(I, n, pre, rest, ps, 1)
  IN IF r[1] THEN r
     ELSE IF rest = "" /\ n.ms # {} THEN <<TRUE, pre, ps>> ELSE <<FALSE, "", <<>>>>
TryFrom(I, n, pre, rest, ps, i) ==
  IF i > Len(n.ch) THEN <<FALSE, "", <<>>>>
  ELSE LET c == n.ch[i]  m == SegMatch(I, c.v, rest) IN
       IF ~m.ok THEN TryFrom(I, n, pre, rest, ps, i + 1)
       ELSE LET ps2 == IF m.cap THEN (m.name :> m.val) @@ ps ELSE ps
                r == Match(I, c, pre \o c.v, m.rest, ps2)
            IN IF r[1] THEN r ELSE TryFrom(I, n, pre, rest, ps, i + 1)      \* abandoned child: its capture is dropped
TreeMatch(I, t, path) == Match(I, t, "", path, <<>>)
=============================================================================
