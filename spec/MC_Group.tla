------------------------------ MODULE MC_Group ------------------------------
(* Generator and design-level checks for C13 / C16: histories of group calls *)
(* over a matcher pool, followed by a product of requests (with fault plans). *)
EXTENDS Group, Json
CONSTANTS Depth, EmitAll, Recs, ReqSel, Alphas
VARIABLES G, hist, nbase, alpha
vars == <<G, hist, nbase, alpha>>
viewG == G

StdI == [digit |-> "digit", word |-> "word", any |-> "any"]
RC(n, rec) == [name |-> n, trace |-> FALSE, lock |-> FALSE, icpt |-> StdI, domain |-> "", recovery |-> rec]
RCT(n, rec) == [name |-> n, trace |-> TRUE, lock |-> FALSE, icpt |-> StdI, domain |-> "", recovery |-> rec]
Hosts(ds)  == [t |-> "hosts", domains |-> ds]
PV(vs)     == [t |-> "pathver", param |-> "ver", versions |-> vs]
HV(vs)     == [t |-> "headerver", param |-> "hv", key |-> "version", versions |-> vs]
HVn(vs)    == [t |-> "headerver", param |-> "ver", key |-> "version", versions |-> vs]     \* records under the SAME name as PV
And(ms)    == [t |-> "and", ms |-> ms]
Or(ms)     == [t |-> "or", ms |-> ms]
Nil        == [t |-> "nil"]
MatchersG == {Hosts(<<"a.com">>), Hosts(<<"{sub}.b.com">>), PV(<<"v1">>), PV(<<"v1", "v11">>), HV(<<"v2">>), Nil,
              And(<<PV(<<"v1">>), Hosts(<<"a.com">>)>>), And(<<Hosts(<<"a.com">>), PV(<<"v1">>)>>),
              Or(<<And(<<PV(<<"v1">>), Hosts(<<"a.com">>)>>), PV(<<"v1">>)>>), Or(<<Hosts(<<"a.com">>), Hosts(<<"{sub}.b.com">>)>>),
              And(<<PV(<<"v1">>), HV(<<"v2">>)>>),
              Or(<<And(<<HV(<<"v2">>), Hosts(<<"a.com">>)>>), Hosts(<<"{sub}.b.com">>)>>),
              Or(<<And(<<Hosts(<<"{sub}.b.com">>), PV(<<"v9">>)>>), Nil>>),
              \* an inner And overwrites a parameter an outer member had set, then rejects: the outer value must be back
              And(<<HVn(<<"v2">>), Or(<<And(<<PV(<<"v1">>), Hosts(<<"a.com">>)>>), Hosts(<<"{sub}.b.com">>)>>)>>)}
Names == {"r1", "r2", "r3"}
Hd(n, p, ms, mw) == [op |-> "handle", inst |-> n, pat |-> p, methods |-> ms, mws |-> mw, chain |-> <<>>, res |-> FALSE]
Table(n) == <<Hd(n, "/x", <<"GET">>, <<"m">>), Hd(n, "/{rest}", <<"GET">>, <<>>)>>
BaseOps == <<[op |-> "router", inst |-> "r1", cfg |-> RC("r1", FALSE)]>> \o Table("r1")
           \o <<[op |-> "router", inst |-> "r2", cfg |-> RC("r2", TRUE)]>> \o Table("r2")
GOps == {[op |-> "gadd", inst |-> n, m |-> m] : n \in {"r1", "r2"}, m \in MatchersG}
        \cup {[op |-> "gremove", inst |-> n] : n \in Names}
        \cup {[op |-> "guse", mws |-> mw] : mw \in {<<"g">>, <<"h", "i">>}}
GNewOps == {[op |-> "gnew", inst |-> "r3", m |-> m, cfg |-> c] : m \in MatchersG, c \in {RC("r3", FALSE), RCT("r3", TRUE)}}

RECURSIVE ApplyAll(_, _, _)
ApplyAll(g, ops, i) == IF i > Len(ops) THEN g ELSE ApplyAll(ApplyGOp(g, ops[i]).g, ops, i + 1)

\* the "deep" base already holds a group middleware and two routers; from there a small alphabet of per-router Use /
\* Handle calls is explored to depth 3 (routers of one group must not see each other's middlewares)
DeepBase == BaseOps \o <<[op |-> "guse", mws |-> <<"g">>], [op |-> "gadd", inst |-> "r1", m |-> Hosts(<<"a.com">>)], [op |-> "gadd", inst |-> "r2", m |-> PV(<<"v1">>)]>>
DeepOps == {[op |-> "use", inst |-> "r1", mws |-> <<"a">>], [op |-> "use", inst |-> "r2", mws |-> <<"b">>], [op |-> "guse", mws |-> <<"h">>],
            Hd("r1", "/y", <<"GET">>, <<>>), Hd("r2", "/y", <<"GET">>, <<"m">>), [op |-> "gremove", inst |-> "r1"],
            [op |-> "gadd", inst |-> "r1", m |-> Nil]}      \* (r1 is in the group already: rejected, and must leave r1 as it was)
\* three routers in the group: removing one must keep the order of the others
Deep3Base == BaseOps \o <<[op |-> "gadd", inst |-> "r1", m |-> Hosts(<<"a.com">>)], [op |-> "gadd", inst |-> "r2", m |-> PV(<<"v1">>)]>>
             \o <<[op |-> "gnew", inst |-> "r3", m |-> Nil, cfg |-> RC("r3", FALSE)]>> \o Table("r3")
             \o <<[op |-> "gnew", inst |-> "r4", m |-> PV(<<"v1", "v11">>), cfg |-> RC("r4", FALSE)]>> \o Table("r4")
Deep3Ops == {[op |-> "gremove", inst |-> n] : n \in {"r1", "r2", "r3", "r4"}} \cup {[op |-> "gadd", inst |-> "r1", m |-> Nil], [op |-> "guse", mws |-> <<"h">>]}
\* C16: a recovery override given to one Group.New router must not reach the next one
RC0(n, rec) == [name |-> n, trace |-> FALSE, lock |-> FALSE, icpt |-> <<>>, domain |-> "", recovery |-> rec]   \* no other option than recovery
Deep16Base == BaseOps \o <<[op |-> "gnew", inst |-> "r3", m |-> Hosts(<<"a.com">>), cfg |-> RC0("r3", TRUE)]>> \o Table("r3")
              \o <<[op |-> "gnew", inst |-> "r4", m |-> Nil, cfg |-> RC0("r4", FALSE)]>> \o Table("r4")
Init == \E rec \in Recs : \/ ("full" \in Alphas /\ G = ApplyAll(NewGroup(rec), BaseOps, 1) /\ hist = BaseOps /\ nbase = Len(BaseOps) /\ alpha = "full")
                           \/ ("deep" \in Alphas /\ G = ApplyAll(NewGroup(rec), DeepBase, 1) /\ hist = DeepBase /\ nbase = Len(DeepBase) /\ alpha = "deep")
                           \/ ("deep" \in Alphas /\ G = ApplyAll(NewGroup(rec), Deep3Base, 1) /\ hist = Deep3Base /\ nbase = Len(Deep3Base) /\ alpha = "deep3")
                           \/ ("deep16" \in Alphas /\ G = ApplyAll(NewGroup(rec), Deep16Base, 1) /\ hist = Deep16Base /\ nbase = Len(Deep16Base) /\ alpha = "deep16")
Next == /\ UNCHANGED <<nbase, alpha>>
        /\ \/ /\ alpha = "full" /\ Len(hist) - nbase < Depth
              /\ \/ \E o \in GOps : G' = ApplyGOp(G, o).g /\ hist' = Append(hist, o)
                 \/ \E o \in GNewOps : GNewOK(G, o.inst) /\ G' = ApplyAll(ApplyGOp(G, o).g, Table(o.inst), 1) /\ hist' = Append(hist, o) \o Table(o.inst)
           \/ /\ alpha = "deep" /\ Depth > 0 /\ Len(hist) - nbase < 3
              /\ \E o \in DeepOps : G' = ApplyGOp(G, o).g /\ hist' = Append(hist, o)
           \/ /\ alpha = "deep16" /\ Depth > 0 /\ Len(hist) - nbase < 1
              /\ \E o \in {[op |-> "guse", mws |-> <<"h">>], [op |-> "gremove", inst |-> "r1"]} : G' = ApplyGOp(G, o).g /\ hist' = Append(hist, o)
           \/ /\ alpha = "deep3" /\ Depth > 0 /\ Len(hist) - nbase < 2
              /\ \E o \in Deep3Ops : G' = ApplyGOp(G, o).g /\ hist' = Append(hist, o)
Spec == Init /\ [][Next]_vars

\* requests: host x path x Accept (x method); fault plans for C16
Rq(kind, n, m, p, h, a, f) == [op |-> kind, inst |-> n, method |-> m, path |-> p, host |-> h,
                               hdr |-> IF a = "" THEN <<>> ELSE [Accept |-> a], faults |-> f]
HostsQ == {"a.com", "s.b.com", "A.COM:80", "c.com"}
PathsQ == {"/v1/x", "/v11/x", "/x", "/v1", "/v1/7q", "/nope/y", "/y", "/v1/y"}
AcceptQ == {"", "application/json; version=v2", "text/html; version=v3"}
ReqsC13 == {Rq("gserve", "", m, p, h, a, <<>>) : m \in {"GET", "POST"}, p \in PathsQ, h \in HostsQ, a \in AcceptQ}
FaultVals == {"error", "string", "runtime", "abort"}
FaultSites == {"h:route", "h:opt", "h:405", "h:404", "h:trace", "h:gnf", "mw:m", "mw:g", "mw:h", "mw:i"}
ReqsC16 == {Rq(k, n, m, p, "a.com", "", (s :> v)) : k \in {"gserve", "rserve"}, n \in {"r1", "r2"}, m \in {"GET", "POST", "OPTIONS", "TRACE"},
                                                    p \in {"/x", "/v1/x", "/nope/y/z"}, s \in FaultSites, v \in FaultVals}
           \cup {Rq("gserve", "", m, p, "c.com", "", (s :> "error")) : m \in {"GET", "POST"}, p \in {"/x", "/nope/y/z"}, s \in {"h:route", "h:404", "h:405", "mw:m", "h:gnf"}}   \* c.com: no router accepts - the GROUP's own not-found handler runs (and panics under h:gnf)
           \cup {Rq(k, n, "GET", p, "a.com", "", <<>>) : k \in {"gserve", "rserve"}, n \in {"r1", "r2"}, p \in {"/x", "/v1/x"}}
RecHelpers == {[op |-> "rechelper", key |-> k, n |-> c, method |-> me, path |-> p, faults |-> (s :> v)] :
                 k \in {"status", "write", "log", "slog"}, c \in {503}, me \in {"GET", "POST", "OPTIONS", "HEAD"}, p \in {"/x", "/zz"},
                 s \in {"h:route", "h:404", "h:405", "h:opt", "mw:m", "late:route"}, v \in {"error", "runtime", "abort", "wrapabort"}}
Reqs == IF ReqSel = "C16" THEN ReqsC16 \cup RecHelpers ELSE ReqsC13

\* the request product is printed once (pool line); every case is probed with it
CaseOf == [fam |-> "group", cfg |-> [recovery |-> G.rec, name |-> "g"], ops |-> hist, reqs |-> <<>>]
Emit == /\ (Len(hist) = nbase => PrintT("POOL " \o ToJson([pool |-> [reqs |-> Reqs]])))
        /\ ((Len(hist) > nbase /\ (EmitAll \/ Len(hist) - nbase >= Depth \/ alpha = "deep")) => PrintT("CASE " \o ToJson(CaseOf)))

\* ---- design-level properties
NamesUnique == \A i, j \in 1..Len(G.order) : i # j => G.order[i] # G.order[j]
Env0 == [mime |-> [ok |-> FALSE, params |-> <<>>]]
ReqRec(r) == [method |-> r.method, path |-> r.path, host |-> r.host, accept |-> ""]
\* C13: a rejecting matcher hands on exactly what it received
NoTrace == \A m \in MatchersG, r \in ReqsC13 : \A e \in Eval(m, ReqRec(r), r.path, <<>>, Env0) : ~e.ok => (e.path = r.path /\ e.ps = <<>>)
\* C13: the group answers with the FIRST accepting router
FirstWins == \A r \in {x \in ReqsC13 : x.hdr = <<>> /\ x.method = "GET"} :
               LET i == FirstAccepting(G, ReqRec(r), Env0, 1)
               IN \A o \in GServeOutcomes(G, ReqRec(r), Env0) :
                    IF i = 0 THEN o.kind = "gnf" /\ o.urlPath = r.path ELSE o.rname = G.order[i]
=============================================================================
