---- MODULE RP ----
EXTENDS Naturals, Sequences, TLC, Json, FiniteSets
CONSTANT File, Props
\* ---------------- Str ----------------
Ch(s, i) == SubSeq(s, i, i)
Drop(s, n) == SubSeq(s, n + 1, Len(s))
Take(s, n) == SubSeq(s, 1, n)
HasPrefix(s, p) == Len(p) <= Len(s) /\ Take(s, Len(p)) = p
Digits == {"0","1","2","3","4","5","6","7","8","9"}
Lowers == {"a","b","c","d","e","f","g","h","i","j","k","l","m","n","o","p","q","r","s","t","u","v","w","x","y","z"}
Uppers == {"A","B","C","D","E","F","G","H","I","J","K","L","M","N","O","P","Q","R","S","T","U","V","W","X","Y","Z"}
Word == Digits \cup Lowers \cup Uppers
AllIn(s, C) == \A i \in 1..Len(s) : Ch(s, i) \in C
RECURSIVE IndexFrom(_, _, _)
IndexFrom(s, p, i) == IF i + Len(p) - 1 > Len(s) THEN 0
                      ELSE IF SubSeq(s, i, i + Len(p) - 1) = p THEN i ELSE IndexFrom(s, p, i + 1)
RECURSIVE FindCh(_, _, _)
FindCh(s, c, i) == IF i > Len(s) THEN 0 ELSE IF Ch(s, i) = c THEN i ELSE FindCh(s, c, i + 1)
\* ---------------- Syntax (well-formed patterns only in this prototype) ----------------
RECURSIVE ParseAt(_, _)
ParseAt(s, i) ==
  IF i > Len(s) THEN <<>>
  ELSE IF Ch(s, i) = "{" THEN
     LET e == FindCh(s, "}", i)
         body == SubSeq(s, i + 1, e - 1)
         col == FindCh(body, ":", 1)
         rawname == IF col = 0 THEN body ELSE Take(body, col - 1)
         rule == IF col = 0 THEN "" ELSE Drop(body, col)
         ig == Len(rawname) > 0 /\ Ch(rawname, 1) = "-"
     IN <<[k |-> "p", name |-> IF ig THEN Drop(rawname, 1) ELSE rawname, rule |-> rule, ig |-> ig, c |-> ""]>> \o ParseAt(s, e + 1)
  ELSE <<[k |-> "c", name |-> "", rule |-> "", ig |-> FALSE, c |-> Ch(s, i)]>> \o ParseAt(s, i + 1)
Parse(s) == ParseAt(s, 1)
Icpt == {"digit", "word", "any"}
KindOf(a) == IF a.rule = "" THEN 3 ELSE IF a.rule \in Icpt THEN 1 ELSE 2
Accepts(a, v) ==
  CASE a.rule = "" -> TRUE
    [] a.rule = "digit" -> Len(v) > 0 /\ AllIn(v, Digits)
    [] a.rule = "word" -> Len(v) > 0 /\ AllIn(v, Word)
    [] a.rule = "any" -> Len(v) > 0
    [] a.rule = "\\d+" -> Len(v) > 0 /\ AllIn(v, Digits)
    [] a.rule = "\\d*" -> AllIn(v, Digits)
    [] a.rule = "[a-z]+" -> Len(v) > 0 /\ AllIn(v, Lowers)
    [] a.rule = "\\w+" -> Len(v) > 0 /\ AllIn(v, Word \cup {"_"})
    [] a.rule = ".+" -> Len(v) > 0
    [] OTHER -> FALSE
\* ---------------- Resolve: A is [pattern -> atoms] ----------------
RECURSIVE Run(_, _, _)
Run(A, G, j) ==
  IF \E r \in G : Len(A[r]) < j \/ A[r][j].k # "c" THEN ""
  ELSE LET c == A[CHOOSE r \in G : TRUE][j].c
       IN IF \A r \in G : A[r][j].c = c THEN c \o Run(A, G, j + 1) ELSE ""
RECURSIVE Caps(_, _, _, _)
\* all indexes idx >= from such that S occurs at idx and the prefix is accepted
Caps(a, S, rest, from) ==
  LET idx == IndexFrom(rest, S, from)
  IN IF idx = 0 THEN {}
     ELSE (IF Accepts(a, Take(rest, idx - 1)) THEN {idx} ELSE {}) \cup Caps(a, S, rest, idx + 1)
Min(S) == CHOOSE x \in S : \A y \in S : x <= y
Max(S) == CHOOSE x \in S : \A y \in S : x >= y
RECURSIVE Res(_, _, _, _, _)
ParamRes(A, C, i, rest, ps, kind) ==
  LET toks == {A[r][i + 1] : r \in {r \in C : Len(A[r]) > i /\ A[r][i + 1].k = "p" /\ KindOf(A[r][i + 1]) = kind}}
      one(a) ==
        LET Ca == {r \in C : Len(A[r]) > i /\ A[r][i + 1] = a}
            ends == {r \in Ca : Len(A[r]) = i + 1}
            firsts == {A[r][i + 2].c : r \in Ca \ ends}
            ps2(v) == IF a.ig THEN ps ELSE ps @@ (a.name :> v)
            endRes == IF ends # {} /\ Accepts(a, rest) THEN {<<r, ps2(rest)>> : r \in ends} ELSE {}
            grp(c) ==
              LET G == {r \in Ca \ ends : A[r][i + 2].c = c}
                  S == Run(A, G, i + 2)
                  all == Caps(a, S, rest, 1)
                  idxs == IF all = {} THEN {} ELSE IF kind = 2 THEN {Min(all), Max(all)} ELSE {Min(all)}
              IN UNION {Res(A, G, i + 1 + Len(S), Drop(rest, idx - 1 + Len(S)), ps2(Take(rest, idx - 1))) : idx \in idxs}
        IN endRes \cup UNION {grp(c) : c \in firsts}
  IN UNION {one(a) : a \in toks}
Res(A, C, i, rest, ps) ==
  LET ended == {r \in C : Len(A[r]) = i}
      lit == IF rest = "" THEN {} ELSE {r \in C : Len(A[r]) > i /\ A[r][i + 1].k = "c" /\ A[r][i + 1].c = Ch(rest, 1)}
      viaLit == IF lit = {} THEN {} ELSE Res(A, lit, i + 1, Drop(rest, 1), ps)
      self == IF rest = "" THEN {<<r, ps>> : r \in ended} ELSE {}
  IN IF viaLit # {} THEN viaLit
     ELSE LET p1 == ParamRes(A, C, i, rest, ps, 1) IN
          IF p1 # {} THEN p1 \cup self
          ELSE LET p2 == ParamRes(A, C, i, rest, ps, 2) IN
               IF p2 # {} THEN p2 \cup self
               ELSE ParamRes(A, C, i, rest, ps, 3) \cup self
\* ---------------- C01 soundness of an observed reply ----------------
RECURSIVE Fits(_, _, _, _)
Fits(atoms, i, rest, ps) ==
  IF i > Len(atoms) THEN rest = ""
  ELSE LET a == atoms[i] IN
    IF a.k = "c" THEN rest # "" /\ Ch(rest, 1) = a.c /\ Fits(atoms, i + 1, Drop(rest, 1), ps)
    ELSE IF a.ig THEN \E n \in 0..Len(rest) : Accepts(a, Take(rest, n)) /\ Fits(atoms, i + 1, Drop(rest, n), ps)
    ELSE a.name \in DOMAIN ps /\ HasPrefix(rest, ps[a.name]) /\ Accepts(a, ps[a.name])
         /\ Fits(atoms, i + 1, Drop(rest, Len(ps[a.name])), ps)
CapNames(atoms) == {atoms[i].name : i \in {j \in 1..Len(atoms) : atoms[j].k = "p" /\ ~atoms[j].ig}}
\* ---------------- state ----------------
Trace == ndJsonDeserialize(File)
VARIABLES rt,       \* pattern -> [atoms, ms : method -> handler id]
          hasTrace, addOnly, l
vars == <<rt, hasTrace, addOnly, l>>
Ev == Trace[l]
ToSet(seq) == {seq[i] : i \in 1..Len(seq)}
Registrable == {"GET","POST","DELETE","PUT","PATCH","CONNECT","TRACE"}
AllowSet(ms) == ms \cup (IF "GET" \in ms THEN {"HEAD"} ELSE {}) \cup {"OPTIONS"} \cup (IF hasTrace THEN {"TRACE"} ELSE {})
A == [p \in DOMAIN rt |-> rt[p].atoms]
Live == DOMAIN rt
Check(id, cond, info) == IF cond \/ id \notin Props THEN TRUE ELSE PrintT("MISMATCH " \o ToJson([id |-> id, line |-> l, info |-> info]))

Init == rt = <<>> /\ hasTrace = FALSE /\ addOnly = TRUE /\ l = 1
TrReset == Ev.ev = "reset" /\ rt' = <<>> /\ hasTrace' = Ev.trace /\ addOnly' = TRUE
BadMethods(ms) == \E i \in 1..Len(ms) : ms[i] \notin Registrable \/ (hasTrace /\ ms[i] = "TRACE")
DupMethods(p, ms) == (\E i, j \in 1..Len(ms) : i # j /\ ms[i] = ms[j]) \/ (p \in Live /\ ToSet(ms) \cap DOMAIN rt[p].ms # {})
TrHandle == /\ Ev.ev = "handle"
            /\ LET ms == Ev.methods
                   must == BadMethods(ms) \/ DupMethods(Ev.pat, ms)
               IN /\ Check("C17", must => Ev.res = "err", <<"must reject", Ev.pat, ms>>)
                  /\ IF Ev.res = "ok"
                     THEN rt' = [p \in Live \cup {Ev.pat} |->
                                   IF p = Ev.pat
                                   THEN [atoms |-> Parse(p), ms |-> [m \in ToSet(ms) \cup (IF p \in Live THEN DOMAIN rt[p].ms ELSE {}) |->
                                                                       IF m \in ToSet(ms) THEN Ev.h ELSE rt[p].ms[m]]]
                                   ELSE rt[p]]
                     ELSE UNCHANGED rt
            /\ UNCHANGED <<hasTrace, addOnly>>
TrRemove == /\ Ev.ev = "remove"
            /\ LET p == Ev.pat
                   del == IF Len(Ev.methods) = 0 THEN Registrable ELSE ToSet(Ev.methods)
               IN IF p \notin Live THEN UNCHANGED rt
                  ELSE LET keep == DOMAIN rt[p].ms \ del
                       IN rt' = [q \in (IF keep = {} THEN Live \ {p} ELSE Live) |->
                                   IF q = p THEN [atoms |-> rt[p].atoms, ms |-> [m \in keep |-> rt[p].ms[m]]] ELSE rt[q]]
            /\ addOnly' = FALSE /\ UNCHANGED hasTrace
TrClean == /\ Ev.ev = "clean"
           /\ rt' = [q \in {q \in Live : ~HasPrefix(q, Ev.prefix)} |-> rt[q]]
           /\ addOnly' = FALSE /\ UNCHANGED hasTrace
TrRoutes == /\ Ev.ev = "routes" /\ UNCHANGED <<rt, hasTrace, addOnly>>
            /\ Check("C03", DOMAIN Ev.val \ {"*"} = Live /\ \A p \in Live : p \in DOMAIN Ev.val => ToSet(Ev.val[p]) = AllowSet(DOMAIN rt[p].ms),
                     <<"routes", Ev.val>>)
Obs == <<Ev.pat, Ev.params>>
TrServe ==
  /\ Ev.ev = "serve" /\ UNCHANGED <<rt, hasTrace, addOnly>>
  /\ Check("C05", Ev.panic = "none", <<"panic", Ev.method, Ev.path, Ev.panic>>)
  /\ IF Ev.panic # "none" THEN TRUE ELSE
     IF hasTrace /\ Ev.method = "TRACE" THEN Check("C18", Ev.kind = "trace", <<"trace", Ev.path>>)
     ELSE IF Ev.path \in {"", "*"} THEN
          Check("C04", Ev.method # "OPTIONS" \/ (Ev.kind = "opt" /\ Ev.pat = ""), <<"root", Ev.method>>)
     ELSE
       \* C01: soundness of whatever is reported, in any history
       /\ Check("C01", IF Ev.kind = "404" THEN DOMAIN Ev.params = {}
                        ELSE /\ Ev.pat \in Live
                             /\ DOMAIN Ev.params = CapNames(rt[Ev.pat].atoms)
                             /\ Fits(rt[Ev.pat].atoms, 1, Ev.path, Ev.params),
                <<"unsound", Ev.method, Ev.path, Ev.kind, Ev.pat, Ev.params>>)
       \* C02 (add-only) / C03 (witness probes): outcome admissible
       /\ IF ~(addOnly \/ Ev.wit) THEN TRUE ELSE
            LET O == Res(A, Live, 0, Ev.path, <<>>)
                id == IF addOnly THEN "C02" ELSE "C03"
            IN Check(id, IF Ev.kind = "404" THEN O = {} ELSE <<Ev.pat, Ev.params>> \in O,
                     <<"resolution", Ev.path, "observed", Ev.kind, Ev.pat, Ev.params, "admissible", O>>)
       \* method dispatch + Allow (C01 handler identity, C04 Allow, C08 HEAD/OPTIONS derivation)
       /\ IF ~(Ev.kind # "404" /\ Ev.pat \in Live) THEN TRUE ELSE
            LET ms == rt[Ev.pat].ms
                m == Ev.method
                want == IF m \in DOMAIN ms THEN <<"route", ms[m]>>
                        ELSE IF m = "HEAD" /\ "GET" \in DOMAIN ms THEN <<"route", ms["GET"]>>
                        ELSE IF m = "OPTIONS" THEN <<"opt", "">> ELSE <<"405", "">>
            IN /\ Check("C08", want[1] = Ev.kind, <<"kind", m, Ev.path, "want", want[1], "got", Ev.kind>>)
               /\ Check("C01", want[1] # "route" \/ want[2] = Ev.h, <<"handler", m, Ev.path, "want", want[2], "got", Ev.h>>)
               /\ Check("C04", Ev.kind = "route" \/ ToSet(Ev.allowH) = AllowSet(DOMAIN ms), <<"allowH", Ev.pat, Ev.allowH, AllowSet(DOMAIN ms)>>)
               /\ Check("C04", ToSet(Ev.allowN) = AllowSet(DOMAIN ms), <<"allowN", Ev.pat, Ev.allowN, AllowSet(DOMAIN ms)>>)
TraceNext == l <= Len(Trace) /\ l' = l + 1 /\ (TrReset \/ TrHandle \/ TrRemove \/ TrClean \/ TrRoutes \/ TrServe)
Spec == Init /\ [][TraceNext]_vars
Accepted == TLCGet("stats").diameter - 1 = Len(Trace)
====
