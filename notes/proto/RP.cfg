SPECIFICATION Spec
CONSTANT File = "trace.ndjson"
CONSTANT Props = {"C01","C02","C03","C04","C05","C08","C17","C18"}
POSTCONDITION Accepted
CHECK_DEADLOCK FALSE
